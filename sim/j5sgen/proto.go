package j5sgen

import (
	"fmt"
	"sort"
	"strings"

	"google.golang.org/protobuf/proto"
	"google.golang.org/protobuf/types/descriptorpb"
)

var protoScalars = []string{"string", "int32", "int64", "uint32", "uint64", "bool", "double", "float", "bytes", "sint32", "fixed64"}

// ---------------------------------------------------------------------------
// hand-written .proto files in local packages
// ---------------------------------------------------------------------------

func (g *gen) genLocalProto(p *pkgInfo, path string) {
	r := g.r
	rich := g.on(XProtoRich)
	var imports []string
	addImport := func(f string) {
		for _, i := range imports {
			if i == f {
				return
			}
		}
		imports = append(imports, f)
	}

	// comments: lead() gives detached + leading comment lines for the next
	// declaration, trail() a trailing comment for the end of a line. Both
	// return nothing (and draw nothing) unless XProtoRich is on.
	ctext := func() string {
		if g.on(XDescExotic) && r.chance(50) {
			return g.exoticLine()
		}
		return g.plainWords()
	}
	lead := func(ind string) []string {
		if !rich {
			return nil
		}
		var out []string
		x := r.intn(100)
		if x < 25 {
			out = append(out, ind+"// detached: "+ctext(), "")
			g.feat("proto_comment_detached")
		}
		switch {
		case x < 55:
			out = append(out, ind+"// "+ctext())
			if r.chance(30) {
				out = append(out, ind+"//", ind+"// "+ctext())
			}
			g.feat("proto_comment_leading")
		case x < 65:
			out = append(out, ind+"/* "+strings.ReplaceAll(ctext(), "*/", "* /"), ind+" * "+g.plainWords(), ind+" */")
			g.feat("proto_comment_block")
		}
		return out
	}
	trail := func() string {
		if !rich || !r.chance(30) {
			return ""
		}
		g.feat("proto_comment_trailing")
		return " // " + ctext()
	}

	// candidate references: everything completed so far (file DAG, L1)
	var sameJ5s, samePkgProto, otherLocal, dep []*typeInfo
	for _, t := range g.types {
		switch {
		case t.pkg == p && t.origin == oJ5s:
			sameJ5s = append(sameJ5s, t)
		case t.pkg == p:
			samePkgProto = append(samePkgProto, t)
		case t.pkg.local:
			if (!p.restrict || p.allowed[t.pkg]) && !p.avoid[t.pkg] {
				otherLocal = append(otherLocal, t)
			}
		default:
			dep = append(dep, t)
		}
	}
	refText := func(t *typeInfo) string {
		addImport(t.file)
		if t.pkg.local && t.pkg != p {
			p.imported[t.pkg] = true
		}
		switch {
		case t.pkg == p && t.origin == oJ5s:
			g.feat("proto_imports_j5s")
		case t.pkg == p:
			g.feat("proto_imports_local_proto")
		case t.pkg.local && t.origin == oJ5s:
			g.feat("proto_imports_other_pkg_j5s")
		case t.pkg.local:
			g.feat("proto_imports_other_pkg_proto")
		default:
			g.feat("proto_imports_dep")
		}
		if t.pkg == p && r.chance(60) {
			return t.name
		}
		return "." + t.pkg.name + "." + t.name
	}
	pickRef := func(force []*typeInfo) string {
		if len(force) > 0 {
			return refText(force[r.intn(len(force))])
		}
		cats := [][]*typeInfo{sameJ5s, samePkgProto, otherLocal, dep}
		w := []int{40, 15, 30, 20}
		any := false
		for i := range cats {
			if len(cats[i]) == 0 {
				w[i] = 0
			} else {
				any = true
			}
		}
		if !any {
			return ""
		}
		cat := cats[g.weighted(w)]
		return refText(cat[r.intn(len(cat))])
	}

	var body []string
	var newTypes []*typeInfo
	var localMsgs []string
	nMsg := r.between(1, 3)
	if (rich || p.twoProtos) && nMsg > 2 {
		nMsg = 2 // the service, the comments and the options (or the extra file) replace a message
	}
	forced := [][]*typeInfo{}
	if len(sameJ5s) > 0 && r.chance(85) {
		forced = append(forced, sameJ5s)
	}
	if len(otherLocal) > 0 && r.chance(50) {
		forced = append(forced, otherLocal)
	}
	if len(dep) > 0 && r.chance(50) {
		forced = append(forced, dep)
	}
	for m := 0; m < nMsg; m++ {
		name := g.typeNameK(p, kObject, nil)
		body = append(body, "")
		if r.chance(40) {
			body = append(body, "// "+g.plainDesc())
		}
		body = append(body, lead("")...)
		body = append(body, "message "+name+" {"+trail())
		if rich && r.chance(20) {
			body = append(body, "  option deprecated = true;"+trail())
			g.feat("proto_message_option")
		}
		names := newFieldNames()
		num := 1
		nf := r.between(1, 5)
		if rich && nf > 3 {
			nf = 3
		}
		for f := 0; f < nf || len(forced) > 0; f++ {
			fname := snake(g.fieldName(names))
			var typ string
			if len(forced) > 0 {
				typ = pickRef(forced[0])
				forced = forced[1:]
			} else {
				x := r.intn(100)
				switch {
				case x < 45:
					typ = r.pick(protoScalars)
				case x < 55 && len(localMsgs) > 0:
					typ = r.pick(localMsgs)
				default:
					typ = pickRef(nil)
					if typ == "" {
						typ = r.pick(protoScalars)
					}
				}
			}
			body = append(body, lead("  ")...)
			y := r.intn(100)
			switch {
			case y < 20:
				opt := ""
				if rich && r.chance(50) {
					opt = fmt.Sprintf(" [(buf.validate.field).repeated = {min_items: %d, max_items: %d, unique: %v}]", r.between(0, 2), r.between(3, 30), typ == "string")
					addImport("buf/validate/validate.proto")
					g.feat("proto_field_option_body")
				}
				body = append(body, fmt.Sprintf("  repeated %s %s = %d%s;%s", typ, fname, num, opt, trail()))
			case y < 28:
				body = append(body, fmt.Sprintf("  map<string, %s> %s = %d;%s", typ, fname, num, trail()))
			case y < 36:
				body = append(body, fmt.Sprintf("  optional %s %s = %d;%s", typ, fname, num, trail()))
			default:
				opt := ""
				if r.chance(35) || (rich && r.chance(50)) {
					// custom options in hand-written files are dynamic messages for the printer;
					// bodies with several populated fields exercise their field order
					switch typ {
					case "string":
						opt = fmt.Sprintf(" [(buf.validate.field) = {required: true, string: {min_len: %d, max_len: %d}}]", r.between(1, 3), r.between(10, 40))
						if rich {
							opt = fmt.Sprintf(" [(buf.validate.field) = {required: true, string: {min_len: %d, max_len: %d, pattern: %q}}, (j5.ext.v1.field).string = {}, json_name = %q]",
								r.between(1, 3), r.between(10, 40), r.pick(patterns), jsonName(fname)+"X")
							addImport("j5/ext/v1/annotations.proto")
							g.feat("proto_field_options_many")
						}
					case "int32", "int64", "uint32", "uint64", "sint32":
						opt = fmt.Sprintf(" [(buf.validate.field) = {required: true, %s: {gte: %d, lte: %d}}]", typ, r.between(1, 5), r.between(50, 500))
						if rich {
							opt = fmt.Sprintf(" [deprecated = true, (buf.validate.field) = {required: true, %s: {gte: %d, lte: %d, not_in: [%d, %d]}}]", typ, r.between(1, 5), r.between(50, 500), r.between(6, 9), r.between(10, 19))
							g.feat("proto_field_options_many")
						}
					case "bool":
						opt = " [(buf.validate.field) = {required: true, bool: {const: true}}]"
					}
					if opt != "" {
						addImport("buf/validate/validate.proto")
						g.feat("proto_field_option_body")
					}
				}
				body = append(body, fmt.Sprintf("  %s %s = %d%s;%s", typ, fname, num, opt, trail()))
			}
			num++
		}
		if rich && r.chance(55) {
			// reserved numbers, ranges and names
			lo := num + r.between(1, 3)
			num = lo + 12
			switch r.intn(3) {
			case 0:
				body = append(body, fmt.Sprintf("  reserved %d, %d to %d;%s", lo, lo+2, lo+9, trail()))
			case 1:
				body = append(body, fmt.Sprintf("  reserved %d to %d, %d, 1000 to max;%s", lo, lo+4, lo+7, trail()))
			default:
				body = append(body, fmt.Sprintf("  reserved %d;", lo))
			}
			if r.chance(60) {
				body = append(body, fmt.Sprintf("  reserved %q, %q;", "old_"+snake(r.pick(fieldWordsA)), "former_value"))
			}
			g.feat("proto_reserved")
		}
		if r.chance(25) || (rich && r.chance(40)) {
			body = append(body, lead("  ")...)
			body = append(body, "  oneof choice {"+trail())
			body = append(body, lead("    ")...)
			body = append(body, fmt.Sprintf("    string %s = %d;%s", snake(g.fieldName(names)), num, trail()))
			num++
			body = append(body, fmt.Sprintf("    int64 %s = %d;", snake(g.fieldName(names)), num))
			num++
			if rich && len(localMsgs) > 0 {
				body = append(body, fmt.Sprintf("    %s %s = %d;", r.pick(localMsgs), snake(g.fieldName(names)), num))
				num++
			}
			body = append(body, "  }")
			g.feat("proto_oneof")
		}
		if r.chance(35) || (rich && r.chance(40)) {
			inner := "Inner"
			var siblings []*typeInfo
			siblings = append(siblings, sameJ5s...)
			siblings = append(siblings, samePkgProto...)
			if len(siblings) > 0 && r.chance(50) {
				// legal in proto (pkg.Outer.X vs pkg.X) and a classic source of "first/last one wins"
				inner = siblings[r.intn(len(siblings))].name
				g.feat("proto_nested_name_equals_sibling_toplevel")
			}
			body = append(body, lead("  ")...)
			body = append(body, "  message "+inner+" {"+trail())
			body = append(body, "    string value = 1;"+trail())
			if rich && r.chance(60) {
				// a nested enum two levels down; its short name may equal a top-level enum of a sibling file
				en := "Kind"
				for _, t := range siblings {
					if t.kind == kEnum && r.chance(50) {
						en = t.name
						g.feat("proto_nested_name_equals_sibling_toplevel")
						break
					}
				}
				pre := upperSnake(inner) + "_" + upperSnake(en) + "_"
				body = append(body, lead("    ")...)
				body = append(body, "    enum "+en+" {")
				body = append(body, "      "+pre+"UNSPECIFIED = 0;"+trail())
				body = append(body, "      "+pre+"ONE = 1 [deprecated = true];")
				body = append(body, "      "+pre+"TWO = 2;"+trail())
				body = append(body, "    }")
				body = append(body, "    "+en+" kind = 2;")
				g.feat("proto_nested_enum_deep")
			}
			body = append(body, "  }")
			body = append(body, fmt.Sprintf("  %s %s = %d;", inner, snake(g.fieldName(names)), num))
			num++
		}
		if rich && r.chance(30) {
			body = append(body, "  // "+ctext())
			g.feat("proto_comment_before_close")
		}
		body = append(body, "}"+trail())
		localMsgs = append(localMsgs, name)
		newTypes = append(newTypes, &typeInfo{pkg: p, name: name, kind: kObject, file: path, src: path, origin: oProto, owner: name})
	}
	nEnum := g.weighted([]int{30, 55, 15})
	if nEnum == 0 && g.on(XEnumRulesXref) {
		nEnum = 1 // something for rules.in / notIn to point at
	}
	for e := 0; e < nEnum; e++ {
		name := g.typeNameK(p, kEnum, nil)
		prefix := upperSnake(name) + "_"
		opts := g.distinct(enumOptionWords, r.between(1, 4))
		body = append(body, "")
		body = append(body, lead("")...)
		body = append(body, "enum "+name+" {"+trail())
		body = append(body, lead("  ")...)
		body = append(body, "  "+prefix+"UNSPECIFIED = 0;"+trail())
		for i, o := range opts {
			body = append(body, lead("  ")...)
			body = append(body, fmt.Sprintf("  %s%s = %d;%s", prefix, o, i+1, trail()))
		}
		body = append(body, "}")
		newTypes = append(newTypes, &typeInfo{pkg: p, name: name, kind: kEnum, file: path, src: path, origin: oProto, options: opts, owner: name})
	}
	if rich && r.chance(75) {
		// a service with (google.api.http) options incl. additional_bindings
		var svc string
		for attempt := 0; ; attempt++ {
			svc = r.pick(typeWordsA) + r.pick([]string{"Api", "Rpc", "Gateway", "Backend"})
			if attempt > 8 {
				svc += letters(attempt)
			}
			if p.reserve(svc) {
				break
			}
		}
		addImport("google/api/annotations.proto")
		base := "/" + p.dir + "/" + snake(svc)
		body = append(body, "")
		body = append(body, lead("")...)
		body = append(body, "service "+svc+" {"+trail())
		nRpc := r.between(1, 3)
		verbs := g.distinct(verbWords, nRpc)
		for i, v := range verbs {
			req, res := r.pick(localMsgs), r.pick(localMsgs)
			rpc := v + r.pick(typeWordsA)
			body = append(body, lead("  ")...)
			switch x := r.intn(100); {
			case x < 40:
				body = append(body, fmt.Sprintf("  rpc %s(%s) returns (%s) {", rpc, req, res))
				body = append(body, lead("    ")...)
				body = append(body, "    option (google.api.http) = {")
				body = append(body, fmt.Sprintf("      get: \"%s/{id}\"", base))
				nb := r.between(1, 3)
				for b := 0; b < nb; b++ {
					if r.chance(50) {
						body = append(body, "      additional_bindings: {")
					} else {
						body = append(body, "      additional_bindings {")
					}
					switch r.intn(3) {
					case 0:
						body = append(body, fmt.Sprintf("        get: \"%s/alt%d/{id}\"", base, b))
					case 1:
						body = append(body, fmt.Sprintf("        post: \"%s/alt%d\"", base, b), "        body: \"*\"")
					default:
						body = append(body, fmt.Sprintf("        custom: {kind: \"HEAD\", path: \"%s/alt%d\"}", base, b))
					}
					body = append(body, "      }")
				}
				body = append(body, "    };"+trail())
				body = append(body, "  }"+trail())
				g.feat("proto_http_additional_bindings")
			case x < 70:
				body = append(body, fmt.Sprintf("  rpc %s(%s) returns (%s) {", rpc, req, res))
				body = append(body, fmt.Sprintf("    option (google.api.http) = {%s: \"%s/%d\", body: \"*\", response_body: \"value\"};", r.pick([]string{"post", "put", "patch"}), base, i))
				if r.chance(30) {
					body = append(body, "    option deprecated = true;")
				}
				body = append(body, "  }")
				g.feat("proto_http_inline_body")
			case x < 85:
				body = append(body, fmt.Sprintf("  rpc %s(%s) returns (%s) {", rpc, req, res))
				body = append(body, fmt.Sprintf("    option (google.api.http).delete = \"%s/{id}\";", base))
				body = append(body, "  }")
				g.feat("proto_http_dotted_option")
			default:
				body = append(body, fmt.Sprintf("  rpc %s(stream %s) returns (stream %s);%s", rpc, req, res, trail()))
				g.feat("proto_rpc_streaming")
			}
		}
		body = append(body, "}")
		g.feat("proto_service")
	}

	var out []string
	if rich {
		if r.chance(50) {
			out = append(out, "// detached file comment: "+ctext(), "")
		}
		if r.chance(50) {
			out = append(out, "// "+ctext())
		}
	}
	out = append(out, `syntax = "proto3";`+trail(), "")
	out = append(out, lead("")...)
	out = append(out, "package "+p.name+";"+trail())
	var fileOpts []string
	if g.on(XFileOptions) {
		fileOpts = g.protoFileOptions(p, path)
		if r.chance(35) {
			// options before the imports
			out = append(out, "")
			out = append(out, fileOpts...)
			fileOpts = nil
			g.feat("proto_file_options_before_imports")
		}
	}
	if len(imports) > 0 {
		out = append(out, "")
		if r.chance(50) {
			sort.Strings(imports)
		}
		for _, i := range imports {
			out = append(out, lead("")...)
			out = append(out, fmt.Sprintf("import %q;%s", i, trail()))
		}
	}
	if len(fileOpts) > 0 {
		out = append(out, "")
		out = append(out, fileOpts...)
	}
	out = append(out, body...)
	if rich {
		if r.chance(40) {
			out = append(out, "", "// comment at the end of the file: "+ctext())
		}
		g.xfeat(XProtoRich)
		g.feat("proto_rich_file")
	}
	g.b.Files[path] = strings.Join(out, "\n") + "\n"
	g.types = append(g.types, newTypes...)
	g.feat("local_proto_file")
}

// protoFileOptions returns file-level option lines for a hand-written proto.
// go_package is always set and differs between the files of one package.
func (g *gen) protoFileOptions(p *pkgInfo, path string) []string {
	r := g.r
	base := path[strings.LastIndex(path, "/")+1:]
	base = strings.ReplaceAll(strings.TrimSuffix(base, ".proto"), ".", "_")
	org := r.pick([]string{"github.com/example", "gitlab.example.org/platform", "example.com/gen", "go.example.dev/api"})
	goPkg := org + "/" + p.dir
	switch r.intn(4) {
	case 0:
		goPkg += "/" + base + "pb"
	case 1:
		goPkg += ";" + strings.ReplaceAll(p.short, ".", "") + "_" + base + "_pb"
	case 2:
		goPkg += "/" + base + ";" + base + "pb"
	}
	for _, used := range p.goPackages {
		if used == goPkg {
			goPkg += "_" + base // never the same value twice in a package
		}
	}
	if len(p.goPackages) > 0 {
		g.feat("proto_go_package_differs_within_pkg")
		if len(p.fileNames) > 0 {
			// ... in a package that also has .j5s files: the shape asked for
			g.xfeat(XFileOptions)
		}
	}
	p.goPackages = append(p.goPackages, goPkg)
	javaPkg := "com.example." + p.name
	if r.chance(50) {
		javaPkg = "org.other." + strings.ReplaceAll(p.name, ".", "_") + "." + base
	}
	csName := "Example." + camel(strings.ReplaceAll(p.name, ".", "_"))
	all := []string{
		`option java_package = "` + javaPkg + `";`,
		"option java_multiple_files = " + r.pick([]string{"true", "false"}) + ";",
		`option java_outer_classname = "` + camel(base) + `Proto";`,
		`option csharp_namespace = "` + csName + `";`,
		`option objc_class_prefix = "` + strings.ToUpper(p.short[:3]) + `";`,
		`option php_namespace = "Example\\` + camel(p.short) + `";`,
		`option ruby_package = "Example::` + camel(p.short) + `";`,
		`option swift_prefix = "` + strings.ToUpper(p.short[:2]) + `";`,
		"option optimize_for = " + r.pick([]string{"SPEED", "CODE_SIZE", "LITE_RUNTIME"}) + ";",
		"option cc_enable_arenas = true;",
		"option deprecated = " + r.pick([]string{"true", "false"}) + ";",
		"option cc_generic_services = false;",
		"option java_string_check_utf8 = true;",
	}
	out := []string{`option go_package = "` + goPkg + `";`}
	for _, o := range g.distinct(all, r.between(1, 6)) {
		out = append(out, o)
	}
	// go_package is not always the first one
	if r.chance(40) {
		k := r.intn(len(out))
		out[0], out[k] = out[k], out[0]
	}
	if g.on(XProtoRich) && r.chance(40) {
		out = append([]string{"// file options: " + g.plainWords()}, out...)
	}
	g.feat("proto_file_options")
	return out
}

// ---------------------------------------------------------------------------
// external dependency packages (FileDescriptorProto)
// ---------------------------------------------------------------------------

var depFileNames = []string{"things", "kinds", "shapes"}

func (g *gen) genDepPackage(p *pkgInfo) {
	r := g.r
	nFiles := 1
	if r.chance(45) {
		nFiles = 2
		g.feat("dep_two_files")
	}
	names := g.distinct(depFileNames, nFiles)
	if p.twin != nil && !p.twin.local {
		// same-named files in both dependency packages
		for i := range names {
			if i < len(p.twin.fileNames) {
				names[i] = p.twin.fileNames[i]
			}
		}
		if len(names) == 2 && names[0] == names[1] {
			names = names[:1]
		}
	}
	p.fileNames = names
	for _, fn := range names {
		path := p.dir + "/" + fn + ".proto"
		fd := &descriptorpb.FileDescriptorProto{
			Name:    proto.String(path),
			Package: proto.String(p.name),
			Syntax:  proto.String("proto3"),
		}
		addDep := func(f string) {
			if f == path {
				return
			}
			for _, d := range fd.Dependency {
				if d == f {
					return
				}
			}
			fd.Dependency = append(fd.Dependency, f)
		}
		var newTypes []*typeInfo
		// enums first so that messages can use them
		nEnum := r.between(1, 2)
		for e := 0; e < nEnum; e++ {
			name := g.typeNameK(p, kEnum, nil)
			prefix := upperSnake(name) + "_"
			opts := g.distinct(enumOptionWords, r.between(1, 4))
			ed := &descriptorpb.EnumDescriptorProto{Name: proto.String(name)}
			ed.Value = append(ed.Value, &descriptorpb.EnumValueDescriptorProto{Name: proto.String(prefix + "UNSPECIFIED"), Number: proto.Int32(0)})
			for i, o := range opts {
				ed.Value = append(ed.Value, &descriptorpb.EnumValueDescriptorProto{Name: proto.String(prefix + o), Number: proto.Int32(int32(i + 1))})
			}
			fd.EnumType = append(fd.EnumType, ed)
			newTypes = append(newTypes, &typeInfo{pkg: p, name: name, kind: kEnum, file: path, origin: oDep, options: opts, owner: name})
		}
		nMsg := r.between(1, 3)
		for m := 0; m < nMsg; m++ {
			name := g.typeNameK(p, kObject, nil)
			md := &descriptorpb.DescriptorProto{Name: proto.String(name)}
			fnames := newFieldNames()
			nf := r.between(1, 4)
			for f := 0; f < nf; f++ {
				fname := snake(g.fieldName(fnames))
				fld := &descriptorpb.FieldDescriptorProto{
					Name:     proto.String(fname),
					Number:   proto.Int32(int32(f + 1)),
					Label:    descriptorpb.FieldDescriptorProto_LABEL_OPTIONAL.Enum(),
					JsonName: proto.String(jsonName(fname)),
				}
				// candidates: earlier dep types (this package's earlier files / this file, other dep packages)
				var cands []*typeInfo
				cands = append(cands, g.types...)
				cands = append(cands, newTypes...)
				x := r.intn(100)
				switch {
				case x < 50 || len(cands) == 0:
					types := []descriptorpb.FieldDescriptorProto_Type{
						descriptorpb.FieldDescriptorProto_TYPE_STRING,
						descriptorpb.FieldDescriptorProto_TYPE_INT32,
						descriptorpb.FieldDescriptorProto_TYPE_INT64,
						descriptorpb.FieldDescriptorProto_TYPE_BOOL,
						descriptorpb.FieldDescriptorProto_TYPE_DOUBLE,
						descriptorpb.FieldDescriptorProto_TYPE_BYTES,
						descriptorpb.FieldDescriptorProto_TYPE_UINT64,
					}
					fld.Type = types[r.intn(len(types))].Enum()
				default:
					t := cands[r.intn(len(cands))]
					if t.kind == kEnum {
						fld.Type = descriptorpb.FieldDescriptorProto_TYPE_ENUM.Enum()
					} else {
						fld.Type = descriptorpb.FieldDescriptorProto_TYPE_MESSAGE.Enum()
					}
					fld.TypeName = proto.String("." + t.pkg.name + "." + t.name)
					addDep(t.file)
					if t.pkg != p {
						g.feat("dep_imports_dep")
					} else if t.file != path {
						g.feat("dep_file_imports_sibling")
					}
				}
				if r.chance(20) {
					fld.Label = descriptorpb.FieldDescriptorProto_LABEL_REPEATED.Enum()
				}
				md.Field = append(md.Field, fld)
			}
			if r.chance(35) {
				inner := "Detail"
				var siblings []*typeInfo
				for _, t := range g.types {
					if t.pkg == p && t.file != path {
						siblings = append(siblings, t)
					}
				}
				asEnum := false
				if len(siblings) > 0 && r.chance(60) {
					sib := siblings[r.intn(len(siblings))]
					inner = sib.name
					asEnum = sib.kind == kEnum
					g.feat("dep_nested_name_equals_sibling_toplevel")
				}
				fld := &descriptorpb.FieldDescriptorProto{
					Name: proto.String("detail_value"), Number: proto.Int32(int32(len(md.Field) + 1)),
					Label: descriptorpb.FieldDescriptorProto_LABEL_OPTIONAL.Enum(), JsonName: proto.String("detailValue"),
					TypeName: proto.String("." + p.name + "." + name + "." + inner),
				}
				if asEnum {
					md.EnumType = append(md.EnumType, &descriptorpb.EnumDescriptorProto{Name: proto.String(inner), Value: []*descriptorpb.EnumValueDescriptorProto{
						{Name: proto.String(upperSnake(name+inner) + "_UNSPECIFIED"), Number: proto.Int32(0)},
						{Name: proto.String(upperSnake(name+inner) + "_ONE"), Number: proto.Int32(1)},
					}})
					fld.Type = descriptorpb.FieldDescriptorProto_TYPE_ENUM.Enum()
				} else {
					md.NestedType = append(md.NestedType, &descriptorpb.DescriptorProto{Name: proto.String(inner), Field: []*descriptorpb.FieldDescriptorProto{{
						Name: proto.String("value"), Number: proto.Int32(1), Type: descriptorpb.FieldDescriptorProto_TYPE_STRING.Enum(),
						Label: descriptorpb.FieldDescriptorProto_LABEL_OPTIONAL.Enum(), JsonName: proto.String("value")}}})
					fld.Type = descriptorpb.FieldDescriptorProto_TYPE_MESSAGE.Enum()
				}
				md.Field = append(md.Field, fld)
			}
			fd.MessageType = append(fd.MessageType, md)
			newTypes = append(newTypes, &typeInfo{pkg: p, name: name, kind: kObject, file: path, origin: oDep, owner: name})
		}
		g.b.Deps = append(g.b.Deps, fd)
		g.types = append(g.types, newTypes...)
		g.feat("dep_file")
	}
}

func jsonName(snakeName string) string {
	parts := strings.Split(snakeName, "_")
	for i := 1; i < len(parts); i++ {
		if parts[i] != "" {
			parts[i] = strings.ToUpper(parts[i][:1]) + parts[i][1:]
		}
	}
	return strings.Join(parts, "")
}
