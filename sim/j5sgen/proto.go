package j5sgen

import (
	"fmt"
	"sort"
	"strings"

	"google.golang.org/protobuf/proto"
	"google.golang.org/protobuf/types/descriptorpb"
)

var protoScalars = []string{"string", "int32", "int64", "uint32", "uint64", "bool", "double", "float", "bytes", "sint32", "fixed64"}

// ---------------------------------------------------------------------------
// hand-written .proto files in local packages
// ---------------------------------------------------------------------------

func (g *gen) genLocalProto(p *pkgInfo, path string) {
	r := g.r
	var imports []string
	addImport := func(f string) {
		for _, i := range imports {
			if i == f {
				return
			}
		}
		imports = append(imports, f)
	}

	// candidate references: everything completed so far (file DAG, L1)
	var sameJ5s, samePkgProto, otherLocal, dep []*typeInfo
	for _, t := range g.types {
		switch {
		case t.pkg == p && t.origin == oJ5s:
			sameJ5s = append(sameJ5s, t)
		case t.pkg == p:
			samePkgProto = append(samePkgProto, t)
		case t.pkg.local:
			otherLocal = append(otherLocal, t)
		default:
			dep = append(dep, t)
		}
	}
	refText := func(t *typeInfo) string {
		addImport(t.file)
		switch {
		case t.pkg == p && t.origin == oJ5s:
			g.feat("proto_imports_j5s")
		case t.pkg == p:
			g.feat("proto_imports_local_proto")
		case t.pkg.local && t.origin == oJ5s:
			g.feat("proto_imports_other_pkg_j5s")
		case t.pkg.local:
			g.feat("proto_imports_other_pkg_proto")
		default:
			g.feat("proto_imports_dep")
		}
		if t.pkg == p && r.chance(60) {
			return t.name
		}
		return "." + t.pkg.name + "." + t.name
	}
	pickRef := func(force []*typeInfo) string {
		if len(force) > 0 {
			return refText(force[r.intn(len(force))])
		}
		cats := [][]*typeInfo{sameJ5s, samePkgProto, otherLocal, dep}
		w := []int{40, 15, 30, 20}
		any := false
		for i := range cats {
			if len(cats[i]) == 0 {
				w[i] = 0
			} else {
				any = true
			}
		}
		if !any {
			return ""
		}
		cat := cats[g.weighted(w)]
		return refText(cat[r.intn(len(cat))])
	}

	var body []string
	var newTypes []*typeInfo
	var localMsgs []string
	nMsg := r.between(1, 3)
	forced := [][]*typeInfo{}
	if len(sameJ5s) > 0 && r.chance(85) {
		forced = append(forced, sameJ5s)
	}
	if len(otherLocal) > 0 && r.chance(50) {
		forced = append(forced, otherLocal)
	}
	if len(dep) > 0 && r.chance(50) {
		forced = append(forced, dep)
	}
	for m := 0; m < nMsg; m++ {
		name := g.typeName(p, nil)
		body = append(body, "")
		if r.chance(40) {
			body = append(body, "// "+g.plainDesc())
		}
		body = append(body, "message "+name+" {")
		names := newFieldNames()
		num := 1
		nf := r.between(1, 5)
		for f := 0; f < nf || len(forced) > 0; f++ {
			fname := snake(g.fieldName(names))
			var typ string
			if len(forced) > 0 {
				typ = pickRef(forced[0])
				forced = forced[1:]
			} else {
				x := r.intn(100)
				switch {
				case x < 45:
					typ = r.pick(protoScalars)
				case x < 55 && len(localMsgs) > 0:
					typ = r.pick(localMsgs)
				default:
					typ = pickRef(nil)
					if typ == "" {
						typ = r.pick(protoScalars)
					}
				}
			}
			y := r.intn(100)
			switch {
			case y < 20:
				body = append(body, fmt.Sprintf("  repeated %s %s = %d;", typ, fname, num))
			case y < 28:
				body = append(body, fmt.Sprintf("  map<string, %s> %s = %d;", typ, fname, num))
			case y < 36:
				body = append(body, fmt.Sprintf("  optional %s %s = %d;", typ, fname, num))
			default:
				opt := ""
				if r.chance(35) {
					// custom options in hand-written files are dynamic messages for the printer;
					// bodies with several populated fields exercise their field order
					switch typ {
					case "string":
						opt = fmt.Sprintf(" [(buf.validate.field) = {required: true, string: {min_len: %d, max_len: %d}}]", r.between(1, 3), r.between(10, 40))
					case "int32", "int64", "uint32", "uint64", "sint32":
						opt = fmt.Sprintf(" [(buf.validate.field) = {required: true, %s: {gte: %d, lte: %d}}]", typ, r.between(1, 5), r.between(50, 500))
					case "bool":
						opt = " [(buf.validate.field) = {required: true, bool: {const: true}}]"
					}
					if opt != "" {
						addImport("buf/validate/validate.proto")
						g.feat("proto_field_option_body")
					}
				}
				body = append(body, fmt.Sprintf("  %s %s = %d%s;", typ, fname, num, opt))
			}
			num++
		}
		if r.chance(25) {
			body = append(body, "  oneof choice {")
			body = append(body, fmt.Sprintf("    string %s = %d;", snake(g.fieldName(names)), num))
			num++
			body = append(body, fmt.Sprintf("    int64 %s = %d;", snake(g.fieldName(names)), num))
			num++
			body = append(body, "  }")
		}
		if r.chance(35) {
			inner := "Inner"
			var siblings []*typeInfo
			siblings = append(siblings, sameJ5s...)
			siblings = append(siblings, samePkgProto...)
			if len(siblings) > 0 && r.chance(50) {
				// legal in proto (pkg.Outer.X vs pkg.X) and a classic source of "first/last one wins"
				inner = siblings[r.intn(len(siblings))].name
				g.feat("proto_nested_name_equals_sibling_toplevel")
			}
			body = append(body, "  message "+inner+" {")
			body = append(body, "    string value = 1;")
			body = append(body, "  }")
			body = append(body, fmt.Sprintf("  %s %s = %d;", inner, snake(g.fieldName(names)), num))
			num++
		}
		body = append(body, "}")
		localMsgs = append(localMsgs, name)
		newTypes = append(newTypes, &typeInfo{pkg: p, name: name, kind: kObject, file: path, src: path, origin: oProto, owner: name})
	}
	nEnum := g.weighted([]int{30, 55, 15})
	for e := 0; e < nEnum; e++ {
		name := g.typeName(p, nil)
		prefix := upperSnake(name) + "_"
		opts := g.distinct(enumOptionWords, r.between(1, 4))
		body = append(body, "")
		body = append(body, "enum "+name+" {")
		body = append(body, "  "+prefix+"UNSPECIFIED = 0;")
		for i, o := range opts {
			body = append(body, fmt.Sprintf("  %s%s = %d;", prefix, o, i+1))
		}
		body = append(body, "}")
		newTypes = append(newTypes, &typeInfo{pkg: p, name: name, kind: kEnum, file: path, src: path, origin: oProto, options: opts, owner: name})
	}

	out := []string{`syntax = "proto3";`, "", "package " + p.name + ";"}
	if len(imports) > 0 {
		out = append(out, "")
		if r.chance(50) {
			sort.Strings(imports)
		}
		for _, i := range imports {
			out = append(out, fmt.Sprintf("import %q;", i))
		}
	}
	out = append(out, body...)
	g.b.Files[path] = strings.Join(out, "\n") + "\n"
	g.types = append(g.types, newTypes...)
	g.feat("local_proto_file")
}

// ---------------------------------------------------------------------------
// external dependency packages (FileDescriptorProto)
// ---------------------------------------------------------------------------

var depFileNames = []string{"things", "kinds", "shapes"}

func (g *gen) genDepPackage(p *pkgInfo) {
	r := g.r
	nFiles := 1
	if r.chance(45) {
		nFiles = 2
		g.feat("dep_two_files")
	}
	names := g.distinct(depFileNames, nFiles)
	for _, fn := range names {
		path := p.dir + "/" + fn + ".proto"
		fd := &descriptorpb.FileDescriptorProto{
			Name:    proto.String(path),
			Package: proto.String(p.name),
			Syntax:  proto.String("proto3"),
		}
		addDep := func(f string) {
			if f == path {
				return
			}
			for _, d := range fd.Dependency {
				if d == f {
					return
				}
			}
			fd.Dependency = append(fd.Dependency, f)
		}
		var newTypes []*typeInfo
		// enums first so that messages can use them
		nEnum := r.between(1, 2)
		for e := 0; e < nEnum; e++ {
			name := g.typeName(p, nil)
			prefix := upperSnake(name) + "_"
			opts := g.distinct(enumOptionWords, r.between(1, 4))
			ed := &descriptorpb.EnumDescriptorProto{Name: proto.String(name)}
			ed.Value = append(ed.Value, &descriptorpb.EnumValueDescriptorProto{Name: proto.String(prefix + "UNSPECIFIED"), Number: proto.Int32(0)})
			for i, o := range opts {
				ed.Value = append(ed.Value, &descriptorpb.EnumValueDescriptorProto{Name: proto.String(prefix + o), Number: proto.Int32(int32(i + 1))})
			}
			fd.EnumType = append(fd.EnumType, ed)
			newTypes = append(newTypes, &typeInfo{pkg: p, name: name, kind: kEnum, file: path, origin: oDep, options: opts, owner: name})
		}
		nMsg := r.between(1, 3)
		for m := 0; m < nMsg; m++ {
			name := g.typeName(p, nil)
			md := &descriptorpb.DescriptorProto{Name: proto.String(name)}
			fnames := newFieldNames()
			nf := r.between(1, 4)
			for f := 0; f < nf; f++ {
				fname := snake(g.fieldName(fnames))
				fld := &descriptorpb.FieldDescriptorProto{
					Name:     proto.String(fname),
					Number:   proto.Int32(int32(f + 1)),
					Label:    descriptorpb.FieldDescriptorProto_LABEL_OPTIONAL.Enum(),
					JsonName: proto.String(jsonName(fname)),
				}
				// candidates: earlier dep types (this package's earlier files / this file, other dep packages)
				var cands []*typeInfo
				cands = append(cands, g.types...)
				cands = append(cands, newTypes...)
				x := r.intn(100)
				switch {
				case x < 50 || len(cands) == 0:
					types := []descriptorpb.FieldDescriptorProto_Type{
						descriptorpb.FieldDescriptorProto_TYPE_STRING,
						descriptorpb.FieldDescriptorProto_TYPE_INT32,
						descriptorpb.FieldDescriptorProto_TYPE_INT64,
						descriptorpb.FieldDescriptorProto_TYPE_BOOL,
						descriptorpb.FieldDescriptorProto_TYPE_DOUBLE,
						descriptorpb.FieldDescriptorProto_TYPE_BYTES,
						descriptorpb.FieldDescriptorProto_TYPE_UINT64,
					}
					fld.Type = types[r.intn(len(types))].Enum()
				default:
					t := cands[r.intn(len(cands))]
					if t.kind == kEnum {
						fld.Type = descriptorpb.FieldDescriptorProto_TYPE_ENUM.Enum()
					} else {
						fld.Type = descriptorpb.FieldDescriptorProto_TYPE_MESSAGE.Enum()
					}
					fld.TypeName = proto.String("." + t.pkg.name + "." + t.name)
					addDep(t.file)
					if t.pkg != p {
						g.feat("dep_imports_dep")
					} else if t.file != path {
						g.feat("dep_file_imports_sibling")
					}
				}
				if r.chance(20) {
					fld.Label = descriptorpb.FieldDescriptorProto_LABEL_REPEATED.Enum()
				}
				md.Field = append(md.Field, fld)
			}
			if r.chance(35) {
				inner := "Detail"
				var siblings []*typeInfo
				for _, t := range g.types {
					if t.pkg == p && t.file != path {
						siblings = append(siblings, t)
					}
				}
				asEnum := false
				if len(siblings) > 0 && r.chance(60) {
					sib := siblings[r.intn(len(siblings))]
					inner = sib.name
					asEnum = sib.kind == kEnum
					g.feat("dep_nested_name_equals_sibling_toplevel")
				}
				fld := &descriptorpb.FieldDescriptorProto{
					Name: proto.String("detail_value"), Number: proto.Int32(int32(len(md.Field) + 1)),
					Label: descriptorpb.FieldDescriptorProto_LABEL_OPTIONAL.Enum(), JsonName: proto.String("detailValue"),
					TypeName: proto.String("." + p.name + "." + name + "." + inner),
				}
				if asEnum {
					md.EnumType = append(md.EnumType, &descriptorpb.EnumDescriptorProto{Name: proto.String(inner), Value: []*descriptorpb.EnumValueDescriptorProto{
						{Name: proto.String(upperSnake(name+inner) + "_UNSPECIFIED"), Number: proto.Int32(0)},
						{Name: proto.String(upperSnake(name+inner) + "_ONE"), Number: proto.Int32(1)},
					}})
					fld.Type = descriptorpb.FieldDescriptorProto_TYPE_ENUM.Enum()
				} else {
					md.NestedType = append(md.NestedType, &descriptorpb.DescriptorProto{Name: proto.String(inner), Field: []*descriptorpb.FieldDescriptorProto{{
						Name: proto.String("value"), Number: proto.Int32(1), Type: descriptorpb.FieldDescriptorProto_TYPE_STRING.Enum(),
						Label: descriptorpb.FieldDescriptorProto_LABEL_OPTIONAL.Enum(), JsonName: proto.String("value")}}})
					fld.Type = descriptorpb.FieldDescriptorProto_TYPE_MESSAGE.Enum()
				}
				md.Field = append(md.Field, fld)
			}
			fd.MessageType = append(fd.MessageType, md)
			newTypes = append(newTypes, &typeInfo{pkg: p, name: name, kind: kObject, file: path, origin: oDep, owner: name})
		}
		g.b.Deps = append(g.b.Deps, fd)
		g.types = append(g.types, newTypes...)
		g.feat("dep_file")
	}
}

func jsonName(snakeName string) string {
	parts := strings.Split(snakeName, "_")
	for i := 1; i < len(parts); i++ {
		if parts[i] != "" {
			parts[i] = strings.ToUpper(parts[i][:1]) + parts[i][1:]
		}
	}
	return strings.Join(parts, "")
}
