package j5sgen

import (
	"fmt"
	"strings"
)

// ---------------------------------------------------------------------------
// entity
// ---------------------------------------------------------------------------

func (fg *fileGen) renderEntity(e *element) []string {
	g := fg.g
	r := g.r
	name := e.name
	// The entity's keys always carry a format or are primary (=> required),
	// which anchors the validate import in the main, service and topic files.
	c := &fctx{g: g, fg: fg, vt: &vtrack{anchors: true}, exclude: name}
	names := newFieldNames()

	out := []string{"entity " + name + " {"}
	out = append(out, indent(g.descLines("entity_desc_ignored", 50))...)

	var opts []string
	if r.chance(30) {
		opts = append(opts, fmt.Sprintf("baseUrlPath = %q", fg.pkg.dir+"/"+snake(name)+"_x"))
		g.feat("entity_base_url")
	}
	if e.rich {
		// block form of the query options
		g.xfeat(XEntityRich)
		opts = append(opts, "query {")
		if r.chance(50) {
			opts = append(opts, "  eventsInGet = "+r.pick([]string{"true", "true", "false"}))
			g.feat("entity_query_events_in_get")
		}
		f := g.distinct(e.opts, r.between(1, len(e.opts)))
		q := make([]string, len(f))
		for i := range f {
			q[i] = fmt.Sprintf("%q", f[i])
		}
		opts = append(opts, "  defaultStatusFilter = ["+strings.Join(q, ", ")+"]")
		opts = append(opts, "}")
		g.feat("entity_default_status_filter")
		g.feat("entity_query_block")
		if len(f) >= 3 {
			g.feat("entity_default_status_filter_many")
		}
	}
	if len(e.cmds) > 0 && !e.rich {
		// query options and command blocks together
		if r.chance(50) {
			opts = append(opts, "query.eventsInGet = true")
			g.feat("entity_query_events_in_get")
		}
		f := g.distinct(e.opts, r.between(1, 2))
		q := make([]string, len(f))
		for i := range f {
			q[i] = fmt.Sprintf("%q", f[i])
		}
		if r.chance(50) {
			opts = append(opts, "query.defaultStatusFilter = ["+strings.Join(q, ", ")+"]")
		} else {
			opts = append(opts, "query {", "  defaultStatusFilter = ["+strings.Join(q, ", ")+"]", "}")
			g.feat("entity_query_block")
		}
		g.feat("entity_default_status_filter")
	}
	if !e.rich && len(e.cmds) == 0 && r.chance(30) {
		opts = append(opts, "query.eventsInGet = true")
		g.feat("entity_query_events_in_get")
	}
	if !e.rich && len(e.cmds) == 0 && r.chance(35) {
		n := r.between(1, 2)
		f := g.distinct(e.opts, n)
		q := make([]string, len(f))
		for i := range f {
			q[i] = fmt.Sprintf("%q", f[i])
		}
		opts = append(opts, "query.defaultStatusFilter = ["+strings.Join(q, ", ")+"]")
		g.feat("entity_default_status_filter")
	}
	if len(opts) > 0 {
		out = append(out, indent(opts)...)
		out = append(out, "")
	}

	// ---- keys ----
	var keys []string
	var keyNames []string
	nPrimary := 1
	if r.chance(30) {
		nPrimary = 2
		g.feat("entity_multi_primary")
	}
	for i := 0; i < nPrimary; i++ {
		kn := g.fieldName(names)
		keyNames = append(keyNames, kn)
		typ := r.pick([]string{"key:id62", "key:uuid", "key:id62", "key"})
		marker := ""
		if r.chance(30) {
			marker = "! "
		}
		keys = append(keys, "key "+kn+" "+marker+typ+" {")
		if r.chance(25) {
			keys = append(keys, "  | "+g.desc())
		}
		keys = append(keys, "  primary = true")
		if r.chance(20) {
			keys = append(keys, "  shardKey = true")
			g.feat("entity_shard_key")
		}
		if r.chance(30) {
			keys = append(keys, "  listRules.filtering.filterable = true")
		}
		keys = append(keys, "}")
	}
	if e.rich {
		// required and optional keys of every key format
		formats := g.distinct([]string{"key:id62", "key:uuid", "key:custom", "key:informal", "key"}, r.between(3, 5))
		markers := g.distinct([]string{"", "! ", "? "}, 3)
		for i, typ := range formats {
			kn := g.fieldName(names)
			marker := markers[i%3]
			var body []string
			if r.chance(20) {
				body = append(body, "| "+g.desc())
			}
			if typ == "key:custom" {
				body = append(body, fmt.Sprintf("format.custom.pattern = %q", r.pick(patterns)))
			}
			switch x := r.intn(100); {
			case x < 35:
				body = append(body, "foreign = "+c.entityRef())
				g.feat("entity_foreign_key")
			case x < 50:
				body = append(body, fmt.Sprintf("tenant = %q", r.pick(tenantWords)))
				g.feat("entity_tenant_key")
			}
			if typ != "key:informal" && r.chance(30) { // L10
				body = append(body, "listRules.filtering.filterable = true")
			}
			if len(body) == 0 {
				keys = append(keys, "key "+kn+" "+marker+typ)
			} else {
				keys = append(keys, "key "+kn+" "+marker+typ+" {")
				keys = append(keys, indent(body)...)
				keys = append(keys, "}")
			}
			fmtName := "none"
			if typ != "key" {
				fmtName = strings.TrimPrefix(typ, "key:")
			}
			switch marker {
			case "! ":
				g.feat("entity_key_" + fmtName + "_required")
			case "? ":
				g.feat("entity_key_" + fmtName + "_optional")
			default:
				g.feat("entity_key_" + fmtName + "_plain")
			}
		}
		g.feat("entity_keys_many_formats")
	}
	if !e.rich && r.chance(55) {
		kn := g.fieldName(names)
		keyNames = append(keyNames, kn)
		typ := r.pick([]string{"key:id62", "key:uuid"})
		keys = append(keys, "key "+kn+" "+typ+" {")
		if r.chance(40) {
			keys = append(keys, "  primary = false")
		}
		keys = append(keys, fmt.Sprintf("  tenant = %q", r.pick(tenantWords)))
		if r.chance(45) {
			keys = append(keys, "  shardKey = true")
			g.feat("entity_shard_key")
		}
		keys = append(keys, "}")
		g.feat("entity_tenant_key")
	}
	if !e.rich && r.chance(45) {
		kn := g.fieldName(names)
		marker := r.pick([]string{"", "? ", "! "})
		typ := r.pick([]string{"key:id62", "key:uuid", "key"})
		keys = append(keys, "key "+kn+" "+marker+typ+" {")
		keys = append(keys, "  foreign = "+c.entityRef())
		if r.chance(30) {
			keys = append(keys, "  listRules.filtering.filterable = true")
		}
		keys = append(keys, "}")
		g.feat("entity_foreign_key")
	}
	if !e.rich && r.chance(35) {
		kn := g.fieldName(names)
		switch r.intn(3) {
		case 0:
			keys = append(keys, "key "+kn+" string")
		case 1:
			keys = append(keys, "key "+kn+" ! string {", fmt.Sprintf("  rules.pattern = %q", r.pick(patterns)), "}")
		default:
			keys = append(keys, "key "+kn+" integer:INT64")
		}
		g.feat("entity_natural_key")
	}
	if len(keys) > 0 {
		g.feat("entity_keys")
	}

	// ---- data ----
	nData := r.between(1, 3)
	if g.large {
		nData = r.between(2, 5)
	}
	if (e.rich || len(e.cmds) > 0) && nData > 2 {
		nData = 2 // the exotic parts replace data fields
	}
	data := c.properties("data", nData, 0, names, true)

	// ---- events ----
	nEvents := r.between(1, 3)
	if g.large {
		nEvents = r.between(2, 4)
	}
	if e.rich && nEvents < 2 {
		nEvents = 2
	}
	if len(e.cmds) > 0 && nEvents > 2 {
		nEvents = 2
	}
	// rich: every nested schema is used by an event
	var useNested []*typeInfo
	if e.rich {
		for _, ne := range e.nested {
			for _, t := range fg.planned {
				if t.name == ne.name && t.owner == ne.name {
					useNested = append(useNested, t)
				}
			}
		}
	}
	var events []string
	for ei, en := range g.distinct(eventWords, nEvents) {
		events = append(events, "event "+en+" {")
		events = append(events, indent(g.descLines("entity_event_desc", 30))...)
		nf := r.between(0, 2)
		enames := newFieldNames()
		if e.rich {
			for ni, t := range useNested {
				if ni%nEvents != ei && !r.chance(25) {
					continue
				}
				var ft ftype
				switch t.kind {
				case kEnum:
					ft = ftype{typ: "enum:" + fg.refText(t), hasExt: true, hasV: true, anchorsV: true, canOptional: true}
					g.feat("entity_event_uses_nested_enum")
				case kOneof:
					ft = ftype{typ: "oneof:" + fg.refText(t), hasExt: true, canOptional: true}
					g.feat("entity_event_uses_nested_oneof")
				default:
					ft = ftype{typ: "object:" + fg.refText(t), hasExt: true, canOptional: true}
					g.feat("entity_event_uses_nested_object")
				}
				switch x := r.intn(100); {
				case x < 20:
					ft.typ, ft.canOptional = "array:"+ft.typ, false
				case x < 30:
					ft.typ, ft.canOptional = "map:"+ft.typ, false
					ft.needsV = ft.hasV
					ft.hasV, ft.anchorsV, ft.hasExt = false, false, false
				}
				events = append(events, indent(c.renderProperty("field", g.fieldName(enames), ft, true))...)
			}
			if nf > 1 {
				nf = 1
			}
		}
		if len(e.cmds) > 0 && nf > 1 {
			nf = 1
		}
		if nf > 0 {
			events = append(events, indent(c.properties("field", nf, 1, enames, true))...)
		}
		events = append(events, "}", "")
	}
	if nEvents >= 2 {
		g.feat("entity_multi_events")
	}

	// ---- nested schemas ----
	var nested []string
	for _, ne := range e.nested {
		switch ne.kind {
		case eObject:
			nested = append(nested, fg.renderObject("object", ne.name)...)
			g.feat("entity_nested_object")
		case eOneof:
			nested = append(nested, fg.renderOneof("oneof", ne.name)...)
			g.feat("entity_nested_oneof")
		default:
			nested = append(nested, ne.lines...)
			g.feat("entity_nested_enum")
		}
		nested = append(nested, "")
	}

	// ---- summaries ----
	var sums []string
	sumFields := func() int {
		if e.rich {
			return r.between(1, 2)
		}
		return r.between(1, 3)
	}
	if e.rich || (len(e.cmds) == 0 && r.chance(50)) {
		sums = append(sums, "summary {")
		sums = append(sums, indent(c.properties("field", sumFields(), 1, newFieldNames(), true))...)
		sums = append(sums, "}", "")
		g.feat("entity_summary")
	}
	for _, s := range e.sums {
		sums = append(sums, "summary "+s+" {")
		sums = append(sums, indent(c.properties("field", sumFields(), 1, newFieldNames(), true))...)
		sums = append(sums, "}", "")
		g.feat("entity_summary_named")
	}
	if e.rich {
		g.feat(fmt.Sprintf("entity_summaries_%d", 1+len(e.sums)))
	}

	// ---- commands ----
	var cmds []string
	for _, cn := range e.cmds {
		head := "command {"
		if cn != "" {
			head = "command " + cn + " {"
			g.feat("entity_command_named")
		} else {
			g.feat("entity_command_default_name")
		}
		cmds = append(cmds, head)
		cmds = append(cmds, indent(g.descLines("entity_command_desc_ignored", 25))...)
		if cn != "" || r.chance(40) {
			cmds = append(cmds, fmt.Sprintf("  basePath = %q", strings.ToLower(strings.TrimSuffix(cn, "Command"))+"cmd"))
		}
		nm := 1 + g.weighted([]int{70, 30})
		for i := 0; i < nm; i++ {
			fg.leanMethods = true
			cmds = append(cmds, indent(fg.renderMethod(c, keyNames[:1]))...)
			fg.leanMethods = false
		}
		cmds = append(cmds, "}", "")
		g.feat("entity_command")
	}
	if len(e.cmds) > 0 {
		g.feat(fmt.Sprintf("entity_command_blocks_%d", len(e.cmds)))
		g.feat("entity_query_options_with_commands")
		if len(e.cmds) >= 2 {
			g.xfeat(XMultiCommand)
		}
	}
	if len(e.cmds) == 0 && r.chance(35) {
		cmds = append(cmds, "command {")
		if r.chance(40) {
			cmds = append(cmds, fmt.Sprintf("  basePath = %q", "cmd"))
		}
		nm := r.between(1, 2)
		for i := 0; i < nm; i++ {
			cmds = append(cmds, indent(fg.renderMethod(c, keyNames[:1]))...)
		}
		cmds = append(cmds, "}", "")
		g.feat("entity_command")
	}

	// Assemble sections in a random order (keys/data/status first half of
	// the time as in the fixture).
	sections := [][]string{
		append(keys, ""),
		append(data, ""),
		append(append([]string{}, e.lines...), ""),
		events,
		nested,
		sums,
		cmds,
	}
	idx := []int{0, 1, 2, 3, 4, 5, 6}
	if r.chance(50) {
		r.shuffleInts(idx)
		g.feat("entity_sections_shuffled")
	}
	for _, i := range idx {
		out = append(out, indent(sections[i])...)
	}
	// trim trailing blank
	for len(out) > 0 && out[len(out)-1] == "" {
		out = out[:len(out)-1]
	}
	out = append(out, "}")
	g.feat("entity")
	if len(e.opts) >= 3 {
		g.feat("entity_many_statuses")
	}
	return out
}

// ---------------------------------------------------------------------------
// service
// ---------------------------------------------------------------------------

func (fg *fileGen) renderService(e *element) []string {
	g := fg.g
	r := g.r
	c := &fctx{g: g, fg: fg, vt: &vtrack{}, exclude: ""}
	out := []string{"service " + e.name + " {"}
	out = append(out, indent(g.descLines("service_desc_ignored", 40))...)
	if r.chance(75) {
		out = append(out, fmt.Sprintf("  basePath = %q", "/"+fg.pkg.dir+"/"+snake(e.name)))
		g.feat("service_base_path")
	}
	if r.chance(40) {
		switch r.intn(4) {
		case 0:
			out = append(out, "  options.defaultAuth.none {", "  }")
		case 1:
			out = append(out, "  options.defaultAuth.jwtBearer {", "  }")
		case 2:
			out = append(out, "  options.defaultAuth.cookie {", "  }")
		default:
			out = append(out, "  options.defaultAuth.custom {", `    passThroughHeaders = ["x-trace", "x-tenant"]`, "  }")
		}
		g.feat("service_default_auth")
	}
	if r.chance(40) {
		a := g.distinct(audienceWords, r.between(1, 3))
		q := make([]string, len(a))
		for i := range a {
			q[i] = fmt.Sprintf("%q", a[i])
		}
		out = append(out, "  options.audience = ["+strings.Join(q, ", ")+"]")
		g.feat("service_audience")
	}
	nm := r.between(1, 3)
	if g.large {
		nm = r.between(3, 5)
	}
	for i := 0; i < nm; i++ {
		out = append(out, "")
		out = append(out, indent(fg.renderMethod(c, nil))...)
	}
	if c.vt.needs && !c.vt.anchors {
		// one more method carrying an anchor in its request
		out = append(out, "")
		out = append(out, indent(fg.renderMethod(c, []string{"anchorId"}))...)
	}
	out = append(out, "}")
	g.feat("service")
	if nm >= 3 {
		g.feat("service_many_methods")
	}
	return out
}

// renderMethod renders one `method` block. pathKeys are request key fields
// (name only) that must exist in the request and be bound in the path.
func (fg *fileGen) renderMethod(c *fctx, pathKeys []string) []string {
	g := fg.g
	r := g.r
	p := fg.pkg
	var name string
	for attempt := 0; ; attempt++ {
		name = r.pick(verbWords) + r.pick(typeWordsA)
		if attempt > 5 {
			name += r.pick(typeWordsB)
		}
		if attempt > 20 {
			name += letters(attempt)
		}
		if p.reserve(name, name+"Request", name+"Response") {
			break
		}
	}
	httpMethod := []string{"GET", "POST", "PUT", "PATCH", "DELETE"}[g.weighted([]int{35, 30, 12, 12, 11})]
	g.feat("service_method_" + strings.ToLower(httpMethod))

	names := newFieldNames(pathKeys...)
	var req []string
	var segs []string
	segs = append(segs, snake(lowerFirst(name)))
	for _, k := range pathKeys {
		req = append(req, "field "+k+" ! key:id62")
		c.vt.anchors = true
		segs = append(segs, ":"+k)
	}
	nParams := g.weighted([]int{35, 40, 25})
	if fg.leanMethods && nParams > 1 {
		nParams = 1
	}
	for i := 0; i < nParams; i++ {
		pn := g.fieldName(names)
		switch r.intn(4) {
		case 0:
			req = append(req, "field "+pn+" ! key:id62")
			c.vt.anchors = true
		case 1:
			req = append(req, "field "+pn+" ! string")
			c.vt.anchors = true
		case 2:
			req = append(req, "field "+pn+" key:uuid")
			c.vt.anchors = true
		default:
			req = append(req, "field "+pn+" string")
		}
		if r.chance(40) {
			segs = append(segs, strings.ToLower(r.pick(fieldWordsA)))
		}
		segs = append(segs, ":"+pn)
	}
	if nParams > 0 || len(pathKeys) > 0 {
		g.feat("service_path_params")
	}
	if nParams+len(pathKeys) >= 2 {
		g.feat("service_path_params_multi")
	}
	path := strings.Join(segs, "/")
	if r.chance(70) {
		path = "/" + path
	}

	paged := httpMethod == "GET" && r.chance(40)
	if paged {
		req = append(req, "field page object:j5.list.v1.PageRequest")
		req = append(req, "field query object:j5.list.v1.QueryRequest")
		g.feat("service_paged_list")
	}
	nReq := r.between(0, 2)
	if fg.leanMethods && nReq > 1 {
		nReq = 1
	}
	if nReq > 0 {
		req = append(req, c.properties("field", nReq, 1, names, true)...)
	}

	out := []string{"method " + name + " {"}
	out = append(out, indent(g.descLines("method_desc_ignored", 30))...)
	out = append(out, "  httpMethod = "+httpMethod)
	out = append(out, fmt.Sprintf("  httpPath = %q", path))
	if r.chance(25) {
		out = append(out, fmt.Sprintf("  options.label = %q", g.plainDesc()))
		if r.chance(50) {
			out = append(out, "  options.hidden = true")
		}
		g.feat("method_options")
	}
	if r.chance(12) {
		out = append(out, "  auth.jwtBearer {", "  }")
		g.feat("method_auth_ignored")
	}
	out = append(out, "")
	out = append(out, "  request {")
	out = append(out, indent(indent(req))...)
	out = append(out, "  }")

	if r.chance(88) {
		rnames := newFieldNames()
		var resp []string
		if paged {
			if text, ti := fg.pickRef(kObject, ""); ti != nil {
				resp = append(resp, "field "+g.fieldName(rnames)+" array:object:"+text)
			}
			resp = append(resp, "field page object:j5.list.v1.PageResponse")
		}
		nResp := r.between(0, 2)
		if fg.leanMethods && nResp > 1 {
			nResp = 1
		}
		if nResp > 0 {
			resp = append(resp, c.properties("field", nResp, 1, rnames, true)...)
		}
		out = append(out, "")
		out = append(out, "  response {")
		out = append(out, indent(indent(resp))...)
		out = append(out, "  }")
	} else {
		g.feat("service_raw_response")
	}
	out = append(out, "}")
	g.feat("service_method")
	return out
}

// ---------------------------------------------------------------------------
// topic
// ---------------------------------------------------------------------------

func (fg *fileGen) renderTopic(topicName string, kind int) []string {
	g := fg.g
	r := g.r
	p := fg.pkg
	c := &fctx{g: g, fg: fg, vt: &vtrack{}, exclude: ""}
	msgName := func() string {
		for attempt := 0; ; attempt++ {
			n := r.pick(typeWordsA) + r.pick([]string{"Changed", "Created", "Removed", "Ping", "Asked", "Told", "Moved"})
			if attempt > 10 {
				n += letters(attempt)
			}
			if p.reserve(n, n+"Message") {
				return n
			}
		}
	}
	var lastNames *fieldNames
	fields := func(min int) []string {
		n := r.between(min, 3)
		lastNames = newFieldNames()
		if n == 0 {
			return nil
		}
		return c.properties("field", n, 1, lastNames, true)
	}
	entityName := func() string {
		var cands []string
		for _, q := range g.pkgs {
			for _, en := range q.ents {
				cands = append(cands, q.name+"."+camel(en))
			}
		}
		if len(cands) > 0 && r.chance(70) {
			return r.pick(cands)
		}
		return p.name + "." + r.pick(typeWordsA)
	}

	var out []string
	switch kind {
	case 0: // publish
		out = append(out, "topic "+topicName+" publish {")
		out = append(out, indent(g.descLines("topic_desc_ignored", 35))...)
		nm := r.between(1, 3)
		for i := 0; i < nm; i++ {
			out = append(out, "  message "+msgName()+" {")
			out = append(out, indent(indent(g.descLines("topic_message_desc", 30)))...)
			f := fields(1)
			if i == nm-1 && c.vt.needs && !c.vt.anchors {
				f = append(f, c.anchor("field", lastNames)...)
			}
			out = append(out, indent(indent(f))...)
			out = append(out, "  }")
		}
		g.feat("topic_publish")
		if nm >= 2 {
			g.feat("topic_publish_multi")
		}
	case 1: // reqres
		out = append(out, "topic "+topicName+" reqres {")
		out = append(out, indent(g.descLines("topic_desc_ignored", 35))...)
		c.vt.anchors = true // required RequestMetadata is prepended
		if r.chance(45) {
			nq := r.between(1, 2)
			for i := 0; i < nq; i++ {
				out = append(out, "  request {")
				out = append(out, fmt.Sprintf("    name = %q", msgName()))
				out = append(out, indent(indent(fields(0)))...)
				out = append(out, "  }")
			}
			np := r.between(1, 2)
			for i := 0; i < np; i++ {
				out = append(out, "  reply {")
				out = append(out, fmt.Sprintf("    name = %q", msgName()))
				out = append(out, indent(indent(fields(0)))...)
				out = append(out, "  }")
			}
			g.feat("topic_reqres_named")
			if nq+np > 2 {
				g.feat("topic_reqres_multi")
			}
		} else {
			out = append(out, "  request {")
			out = append(out, indent(indent(fields(1)))...)
			out = append(out, "  }")
			out = append(out, "  reply {")
			out = append(out, indent(indent(fields(1)))...)
			out = append(out, "  }")
		}
		g.feat("topic_reqres")
	case 2: // upsert
		out = append(out, "topic "+topicName+" upsert {")
		c.vt.anchors = true // required UpsertMetadata is prepended
		out = append(out, fmt.Sprintf("  entityName = %q", entityName()))
		out = append(out, "  message {")
		if r.chance(30) {
			out = append(out, fmt.Sprintf("    name = %q", msgName()))
		}
		out = append(out, indent(indent(fields(1)))...)
		out = append(out, "  }")
		g.feat("topic_upsert")
	default: // event
		out = append(out, "topic "+topicName+" event {")
		out = append(out, fmt.Sprintf("  entityName = %q", entityName()))
		out = append(out, "  message {")
		if r.chance(30) {
			out = append(out, fmt.Sprintf("    name = %q", msgName()))
		}
		f := fields(1)
		if c.vt.needs && !c.vt.anchors {
			f = append(f, c.anchor("field", lastNames)...)
		}
		out = append(out, indent(indent(f))...)
		out = append(out, "  }")
		g.feat("topic_event")
	}
	out = append(out, "}")
	g.feat("topic")
	return out
}

// camel converts snake_case to CamelCase.
func camel(s string) string {
	parts := strings.Split(s, "_")
	for i, p := range parts {
		if p != "" {
			parts[i] = strings.ToUpper(p[:1]) + p[1:]
		}
	}
	return strings.Join(parts, "")
}
