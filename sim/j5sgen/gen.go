// Package j5sgen is a seeded random generator of valid "j5s" source bundles
// for github.com/pentops/j5 (schema language -> protobuf compiler).
//
// Generate(seed, cfg) is a pure function: it uses its own splitmix64 PRNG,
// never iterates a Go map to produce output, uses no time, no global
// math/rand and no goroutines.
//
// ---------------------------------------------------------------------------
// AVOIDED CONSTRUCTS / COMPILER LIMITATIONS FOUND (do not emit; error shown)
// ---------------------------------------------------------------------------
//
//	L1. File-level import cycles (a.j5s uses a message of hand-written c.proto
//	    while c.proto imports "a.j5s.proto"; or a.j5s <-> b.j5s mutual refs).
//	    protobuild/linker.go resolveFile <-> loadDependencies recurse forever:
//	    fatal, unrecoverable "stack overflow" (process dies).
//	    => the generator keeps the file dependency graph strictly acyclic,
//	    within a package and across packages (files are generated in a global
//	    order and may only reference types of files generated earlier, or of
//	    the same file). Package-level cycles give CircularDependencyError.
//
//	L2. Scalar rules do not register the buf/validate import: an object whose
//	    only validated field is e.g. `field f string { rules.minLength = 1 }`
//	    (same for integer / bool / bytes / timestamp rules and map item rules)
//	    fails with
//	      compile foo.v1: resolve file foo/v1/a.j5s.proto: proto: not found
//	    unless the same *generated file* (main / service / topic sub-file)
//	    contains something that does call ensureImport(buf/validate): a
//	    required field (`!`), an enum field, a key with a format, an object
//	    field with rules, an array with validated items.
//	    => the generator appends an "anchor" field (key:id62/uuid) to every
//	    top-level container that uses scalar rules and has no such anchor.
//
//	L3. Same root cause for enum options: a .j5s file containing only enums
//	    with `info.x = "..."` entries or `info { name = ... }` definitions and
//	    no object/oneof (nothing imports j5/ext/v1/annotations.proto) fails
//	    with "proto: not found".
//	    => every generated .j5s file starts with an object.
//
//	L4. float rules:  `field f float:FLOAT64 { rules.minimum = 1.5 }`
//	      -> "TODO: float rules not implemented"
//
//	L5. date rules / decimal rules:  `field f date { rules.minimum = "2020-01-01" }`
//	      -> PANIC: invalid type: got *ext_j5pb.DateField, want *ext_j5pb.FieldOptions
//	    (same with *ext_j5pb.DecimalField). (j5convert/fields.go passes the
//	    wrong message to proto.SetExtension.)
//
//	L6. array `ext.singleForm = "thing"`
//	      -> PANIC: mismatching field: got j5.schema.v1.ArrayField.Ext.single_form,
//	                want j5.ext.v1.ArrayField.single_form
//
//	L7. `listRequest` on a service method, or `query.listRequest.defaultSort`
//	    / `query.eventsListRequest` on an entity
//	      -> PANIC: extension j5.list.v1.list_request has mismatching containing
//	                message: got google.protobuf.MessageOptions, want
//	                google.protobuf.MethodOptions
//
//	L8. Nested `object X { ... }` declarations inside an object cannot be
//	    referenced from fields: `field n object:X` -> "type X not found",
//	    `field n object:Outer.X` -> `package "Outer" not imported (for schema X)`.
//	    => nested declarations are emitted but never referenced.
//
//	L9. Self / ancestor references: `object A { field f object:A }`, or a field
//	    of an inline/nested message that references an enclosing message.
//	    Compiles, and protoprint returns NO error, but prints an EMPTY type
//	    name (`   f = 1 [...]`), i.e. invalid proto text
//	    (protoprint.contextRefName strips the whole path).
//	    => never generated (entity event/data fields likewise never reference
//	    the entity's own derived messages).
//
// L10. key with format `informal` plus listRules -> "unknown key format
//
//	*schema_j5pb.KeyFormat_Informal_". => informal keys get no listRules.
//
// L11. `import foo.v1 as alias` (README syntax) is not accepted:
//
//	  "no more tags expected for type j5.sourcedef.v1.Import"
//	The working alias form is the qualifier:  `import foo.v1:alias`.
//
// L12. any-field alias `type = "x.v1.Foo"` -> "bad type: want Scalar, got
//
//	j5.schema.v1.AnyField.types"; `types = [...]` / `types += "..."` work.
//
// L13. Negative numbers cannot be written at all (the BCL lexer has no '-').
//
// L14. `exclusiveMinimum = false` without `minimum` (same for maximum)
//
//	-> "integer rules: exclusive minimum requires minimum to be set".
//
// L15. `?` (optional) on array/map fields and on oneof options would produce
//
//	proto3_optional on repeated / oneof members (link error); `?` together
//	with `!` -> "cannot be both required and optional".
//
// L16. array / map typed options of a oneof: `oneof X { option m map:string }`
//
//	  -> "field x.v1.X.m: x.v1.MEntry is a synthetic map entry and may not
//	      be referenced explicitly" (the entry message is attached to the
//	  wrong parent); repeated members of a oneof are invalid proto anyway.
//	=> oneof options are never array/map typed.
//
// L17. required map field: `field m ! map:string` (or `required = true`)
//
//	-> PANIC: runtime error: invalid memory address or nil pointer
//	   dereference (j5convert/fields.go:162, proto.SetExtension on the
//	   map field's nil Options).
//
// L18. An inline-schema field whose CamelCase name equals the name of an
//
//	enclosing message, e.g. `object Vendor { field vendor object {...} }`
//	or `object Batch { field batch object {...}  field region object {...} }`
//	  -> "field bravo.v1.Vendor.vendor: unknown type Vendor.Vendor; resolved
//	      to bravo.v1.Vendor.Vendor.Vendor which is not defined; consider
//	      using a leading dot" (relative type names for inline schemas).
//	=> the field-name pool and the type-name pool are disjoint.
//
// PERFORMANCE (why bundles are kept small): protoprint/optionreflect
// Builder.OptionsFor calls protodesc.ToFileDescriptorProto(parentFile) for
// EVERY message, field, enum, enum value, method... it prints, so printing is
// quadratic in the size of a generated file; bcl.validateFile builds a fresh
// protovalidate validator (CEL environments) for every parsed .j5s file; a
// trivial one-object bundle already costs ~15 ms. Entities and services
// expand into many messages, so at most one entity and one service are
// generated per file.
//
// Silently ignored by the compiler (still emitted, harmless): timestamp
// listRules, timestamp rule values, map rules (minPairs/maxPairs), map item
// rules, array rules when the item type has no validation, descriptions of
// entities / services / methods / topics, string `format`.
// Odd but accepted: enum `rules.in = ["A","B"]` on a j5s-defined enum compiles
// to `in: [0, 0]` (option numbers are not yet assigned in the summary).
// ---------------------------------------------------------------------------
package j5sgen

import (
	"sort"

	"google.golang.org/protobuf/types/descriptorpb"
)

// Config bounds the size of a generated bundle.
type Config struct {
	MaxPackages        int // local packages, 1..3
	MaxFilesPerPackage int // 1..3 .j5s files plus optional hand-written .proto files
	MaxElements        int // top-level elements per file; > 4 also switches to "large" mode (always MaxPackages packages, >= 1 dep, more fields / methods / events per element)
	MaxDeps            int // external dependency packages 0..2
}

// DefaultConfig is a modest bundle: compile+print well under 50ms.
func DefaultConfig() Config {
	return Config{MaxPackages: 3, MaxFilesPerPackage: 3, MaxElements: 3, MaxDeps: 2}
}

// SmallConfig is for speed-critical loops (not part of the required API).
func SmallConfig() Config {
	return Config{MaxPackages: 2, MaxFilesPerPackage: 2, MaxElements: 2, MaxDeps: 1}
}

// LargeConfig produces bigger files (more elements and fields per element).
func LargeConfig() Config {
	return Config{MaxPackages: 3, MaxFilesPerPackage: 3, MaxElements: 6, MaxDeps: 2}
}

// Bundle is one generated set of sources.
type Bundle struct {
	Packages []string                            // local package names, sorted
	Files    map[string]string                   // path ("foo/v1/a.j5s", "foo/v1/x.proto") -> source text
	Deps     []*descriptorpb.FileDescriptorProto // external dependency files, sorted by name; package never in Packages
	Features map[string]int                      // feature name -> how many times generated
}

// ---------------------------------------------------------------------------
// PRNG
// ---------------------------------------------------------------------------

type rng struct{ s uint64 }

func (r *rng) next() uint64 {
	r.s += 0x9e3779b97f4a7c15
	z := r.s
	z = (z ^ (z >> 30)) * 0xbf58476d1ce4e5b9
	z = (z ^ (z >> 27)) * 0x94d049bb133111eb
	return z ^ (z >> 31)
}

// intn returns a value in [0,n).
func (r *rng) intn(n int) int {
	if n <= 1 {
		return 0
	}
	return int(r.next() % uint64(n))
}

// between returns a value in [lo,hi].
func (r *rng) between(lo, hi int) int {
	if hi <= lo {
		return lo
	}
	return lo + r.intn(hi-lo+1)
}

func (r *rng) chance(pct int) bool { return r.intn(100) < pct }

func (r *rng) pick(list []string) string { return list[r.intn(len(list))] }

func (r *rng) shuffleInts(a []int) {
	for i := len(a) - 1; i > 0; i-- {
		j := r.intn(i + 1)
		a[i], a[j] = a[j], a[i]
	}
}

// ---------------------------------------------------------------------------
// Model
// ---------------------------------------------------------------------------

const (
	kObject = iota
	kOneof
	kEnum
)

const (
	oJ5s = iota
	oProto
	oDep
)

type pkgInfo struct {
	name   string // "acme.delta.v1"
	dir    string // "acme/delta/v1"
	short  string // "delta" (second to last segment)
	alias  string // alias to use for `import x:alias`
	local  bool
	order  int             // generation order (lower = generated earlier = may be imported by later)
	names  map[string]bool // reserved identifiers (membership only; never iterated)
	ents   []string        // entity names (snake) defined in this package
	sorted int             // index in sorted local package list (locals only)
}

type typeInfo struct {
	pkg     *pkgInfo
	name    string
	kind    int
	file    string // proto import path of the defining file
	src     string // source path of the defining file ("" for deps)
	origin  int
	options []string // enum option names without prefix
	owner   string   // top-level element that owns the type (entity derived types)
}

type gen struct {
	r     *rng
	cfg   Config
	large bool
	b     *Bundle
	types []*typeInfo // all types of files completed so far
	pkgs  []*pkgInfo  // local packages in generation order
	deps  []*pkgInfo  // dependency packages in generation order
}

func (g *gen) feat(name string) { g.b.Features[name]++ }

// Generate builds the bundle for a seed. Pure function of (seed, cfg).
func Generate(seed uint64, cfg Config) *Bundle {
	if cfg.MaxPackages < 1 {
		cfg.MaxPackages = 1
	}
	if cfg.MaxPackages > 3 {
		cfg.MaxPackages = 3
	}
	if cfg.MaxFilesPerPackage < 1 {
		cfg.MaxFilesPerPackage = 1
	}
	if cfg.MaxFilesPerPackage > 3 {
		cfg.MaxFilesPerPackage = 3
	}
	if cfg.MaxElements < 1 {
		cfg.MaxElements = 1
	}
	if cfg.MaxDeps < 0 {
		cfg.MaxDeps = 0
	}
	if cfg.MaxDeps > 2 {
		cfg.MaxDeps = 2
	}
	g := &gen{
		r:     &rng{s: seed ^ 0x6a09e667f3bcc908},
		cfg:   cfg,
		large: cfg.MaxElements > 4,
		b: &Bundle{
			Files:    map[string]string{},
			Features: map[string]int{},
		},
	}
	// warm up so that small seeds diverge
	g.r.next()
	g.r.next()

	g.planPackages()
	for _, dp := range g.deps {
		g.genDepPackage(dp)
	}
	for _, p := range g.pkgs {
		g.genLocalPackage(p)
	}

	for _, p := range g.pkgs {
		g.b.Packages = append(g.b.Packages, p.name)
	}
	sort.Strings(g.b.Packages)
	sort.Slice(g.b.Deps, func(i, j int) bool { return g.b.Deps[i].GetName() < g.b.Deps[j].GetName() })
	return g.b
}

// weighted picks an index by weight.
func (g *gen) weighted(weights []int) int {
	total := 0
	for _, w := range weights {
		total += w
	}
	if total <= 0 {
		return 0
	}
	n := g.r.intn(total)
	for i, w := range weights {
		if n < w {
			return i
		}
		n -= w
	}
	return len(weights) - 1
}
