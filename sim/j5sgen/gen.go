// Package j5sgen is a seeded random generator of valid "j5s" source bundles
// for github.com/pentops/j5 (schema language -> protobuf compiler).
//
// Generate(seed, cfg) is a pure function: it uses its own splitmix64 PRNG,
// never iterates a Go map to produce output, uses no time, no global
// math/rand and no goroutines.
//
// On top of the basic bundle there are 16 "exotic but valid" shapes (type
// Exotic below), each switched on independently by the seed (taking effect
// in roughly 8-16% of the DefaultConfig bundles) and recorded in
// Bundle.Features as "x_<name>". They replace ordinary content, so that a
// bundle costs about 10% more to compile than without them.
// GenerateWith(seed, cfg, Tuning{Force, Forbid}) forces / forbids shapes;
// with Forbid: AllExotic the files and dependencies are byte-identical to
// what the generator produced before the shapes existed.
//
// ---------------------------------------------------------------------------
// AVOIDED CONSTRUCTS / COMPILER LIMITATIONS FOUND (do not emit; error shown)
// ---------------------------------------------------------------------------
//
//	L1. File-level import cycles (a.j5s uses a message of hand-written c.proto
//	    while c.proto imports "a.j5s.proto"; or a.j5s <-> b.j5s mutual refs).
//	    protobuild/linker.go resolveFile <-> loadDependencies recurse forever:
//	    fatal, unrecoverable "stack overflow" (process dies).
//	    => the generator keeps the file dependency graph strictly acyclic,
//	    within a package and across packages (files are generated in a global
//	    order and may only reference types of files generated earlier, or of
//	    the same file). Package-level cycles give CircularDependencyError.
//
//	L2. Scalar rules do not register the buf/validate import: an object whose
//	    only validated field is e.g. `field f string { rules.minLength = 1 }`
//	    (same for integer / bool / bytes / timestamp rules and map item rules)
//	    fails with
//	      compile foo.v1: resolve file foo/v1/a.j5s.proto: proto: not found
//	    unless the same *generated file* (main / service / topic sub-file)
//	    contains something that does call ensureImport(buf/validate): a
//	    required field (`!`), an enum field, a key with a format, an object
//	    field with rules, an array with validated items.
//	    => the generator appends an "anchor" field (key:id62/uuid) to every
//	    top-level container that uses scalar rules and has no such anchor.
//
//	L3. Same root cause for enum options: a .j5s file containing only enums
//	    with `info.x = "..."` entries or `info { name = ... }` definitions and
//	    no object/oneof (nothing imports j5/ext/v1/annotations.proto) fails
//	    with "proto: not found".
//	    => every generated .j5s file starts with an object.
//
//	L4. float rules:  `field f float:FLOAT64 { rules.minimum = 1.5 }`
//	      -> "TODO: float rules not implemented"
//
//	L5. date rules / decimal rules:  `field f date { rules.minimum = "2020-01-01" }`
//	      -> PANIC: invalid type: got *ext_j5pb.DateField, want *ext_j5pb.FieldOptions
//	    (same with *ext_j5pb.DecimalField). (j5convert/fields.go passes the
//	    wrong message to proto.SetExtension.)
//
//	L6. array `ext.singleForm = "thing"`
//	      -> PANIC: mismatching field: got j5.schema.v1.ArrayField.Ext.single_form,
//	                want j5.ext.v1.ArrayField.single_form
//
//	L7. `listRequest` on a service method, or `query.listRequest.defaultSort`
//	    / `query.eventsListRequest` on an entity
//	      -> PANIC: extension j5.list.v1.list_request has mismatching containing
//	                message: got google.protobuf.MessageOptions, want
//	                google.protobuf.MethodOptions
//
//	L8. Nested `object X { ... }` declarations inside an object cannot be
//	    referenced from fields: `field n object:X` -> "type X not found",
//	    `field n object:Outer.X` -> `package "Outer" not imported (for schema X)`.
//	    => nested declarations are emitted but never referenced.
//
//	L9. Self / ancestor references: `object A { field f object:A }`, or a field
//	    of an inline/nested message that references an enclosing message.
//	    Compiles, and protoprint returns NO error, but prints an EMPTY type
//	    name (`   f = 1 [...]`), i.e. invalid proto text
//	    (protoprint.contextRefName strips the whole path).
//	    => never generated (entity event/data fields likewise never reference
//	    the entity's own derived messages).
//
// L10. key with format `informal` plus listRules -> "unknown key format
//
//	*schema_j5pb.KeyFormat_Informal_". => informal keys get no listRules.
//
// L11. `import foo.v1 as alias` (README syntax) is not accepted:
//
//	  "no more tags expected for type j5.sourcedef.v1.Import"
//	The working alias form is the qualifier:  `import foo.v1:alias`.
//
// L12. any-field alias `type = "x.v1.Foo"` -> "bad type: want Scalar, got
//
//	j5.schema.v1.AnyField.types"; `types = [...]` / `types += "..."` work.
//
// L13. Negative numbers cannot be written at all (the BCL lexer has no '-').
//
// L14. `exclusiveMinimum = false` without `minimum` (same for maximum)
//
//	-> "integer rules: exclusive minimum requires minimum to be set".
//
// L15. `?` (optional) on array/map fields and on oneof options would produce
//
//	proto3_optional on repeated / oneof members (link error); `?` together
//	with `!` -> "cannot be both required and optional".
//
// L16. array / map typed options of a oneof: `oneof X { option m map:string }`
//
//	  -> "field x.v1.X.m: x.v1.MEntry is a synthetic map entry and may not
//	      be referenced explicitly" (the entry message is attached to the
//	  wrong parent); repeated members of a oneof are invalid proto anyway.
//	=> oneof options are never array/map typed.
//
// L17. required map field: `field m ! map:string` (or `required = true`)
//
//	-> PANIC: runtime error: invalid memory address or nil pointer
//	   dereference (j5convert/fields.go:162, proto.SetExtension on the
//	   map field's nil Options).
//
// L18. An inline-schema field whose CamelCase name equals the name of an
//
//	enclosing message, e.g. `object Vendor { field vendor object {...} }`
//	or `object Batch { field batch object {...}  field region object {...} }`
//	  -> "field bravo.v1.Vendor.vendor: unknown type Vendor.Vendor; resolved
//	      to bravo.v1.Vendor.Vendor.Vendor which is not defined; consider
//	      using a leading dot" (relative type names for inline schemas).
//	=> the field-name pool and the type-name pool are disjoint.
//
// L19. User files in the directories of the generated sub-packages
//
//	(foo/v1/service/x.proto, foo/v1/topic/x.j5s): protobuild
//	sourceResolver.listPackageFiles drops every file whose directory is
//	not exactly the package directory, so such files are silently ignored;
//	importing one from a .j5s file fails with
//	  loadExternalPackage use.v1.service: package files for use.v1.service:
//	  no files for package at use/v1/service
//	and listing "use.v1.service" as a local package of its own fails with
//	  resolve file use/v1/service/stray.j5s.proto: findFileByPath: file
//	  use/v1/service/stray.j5s.proto not found in package use.v1
//	(packageForFile maps the file back to use.v1).
//	=> sub-package layouts for user files are NOT supported; the only shape
//	generated is a stray hand-written .proto there which nothing imports
//	(XStrayFile; HEAD ignores it).
//
// L20. `import foo.v1:alias` registers ONLY the alias: a reference written
//
//	with the full name then fails with
//	  package "foo.v1" not imported (for schema Thing)
//	(`import foo.v1` registers both "foo" and "foo.v1"; `import "foo/v1/x.proto"`
//	only "foo.v1").
//
// L21. Alias clashes are not errors: j5convert.j5Imports fills a map in file
//
//	order, so the LAST import defining an alias owns it (`import foo.bar.v1`
//	+ `import baz.bar.v1`: bar.Thing is baz.bar.v1.Thing; `import a.v1` +
//	`import b.v1:a`: a.Thing is b.v1.Thing). A reference through the alias
//	to a type that only the shadowed package has fails with "type X not
//	found in package ...". Imports that lost their alias are only
//	reported as "import not used" warnings.
//	=> the generator tracks the owner of every alias per file, writes the
//	owner last, and uses full names for the shadowed package.
//
// L22. DEFECT FOUND (order dependence, not generated unless forced):
//
//	two DEPENDENCY packages whose directories are string prefixes of each
//	other (extone/v1 and extone/v10). dependencyResolver.listPackageFiles
//	asks DependencySet.ListDependencyFiles("extone/v1") and the real
//	implementation (internal/source/deps.go imageFiles.ListDependencyFiles)
//	matches with strings.HasPrefix(name, prefix) WITHOUT a trailing "/", so
//	the files of extone.v10 are loaded into package extone.v1 as well and
//	their exports are merged by name (Package.includeIO, last file wins):
//	`object:extone.v1.Thing` compiles to extone.v10.Thing or to
//	extone.v1.Thing DEPENDING ON THE ORDER in which the dependency files
//	are listed. No error. Shape: Tuning{Force: XDepPkgPrefix} (or set
//	depPkgPrefixPct below to let the seed choose it); minimal
//	reproducer: TestDepPrefixListingOrder in gen_selfcheck_test.go.
//	(Local packages are safe: their listing is filtered by directory.)
//
// Foreign keys (`foreign = pkg.v1.entity` / `foreign = entity`) are copied
// into (j5.ext.v1.key).foreign_key verbatim and never resolved: the entity
// and its package need not exist or be imported.
// Entity, service, method and topic-message descriptions are dropped.
//
// PERFORMANCE (why bundles are kept small): protoprint/optionreflect
// Builder.OptionsFor calls protodesc.ToFileDescriptorProto(parentFile) for
// EVERY message, field, enum, enum value, method... it prints, so printing is
// quadratic in the size of a generated file; bcl.validateFile builds a fresh
// protovalidate validator (CEL environments) for every parsed .j5s file; a
// trivial one-object bundle already costs ~15 ms. Entities and services
// expand into many messages, so at most one entity and one service are
// generated per file.
//
// Silently ignored by the compiler (still emitted, harmless): timestamp
// listRules, timestamp rule values, map rules (minPairs/maxPairs), map item
// rules, array rules when the item type has no validation, descriptions of
// entities / services / methods / topics, string `format`.
// Odd but accepted: enum `rules.in = ["A","B"]` on a j5s-defined enum compiles
// to `in: [0, 0]` (option numbers are not yet assigned in the summary).
// ---------------------------------------------------------------------------
package j5sgen

import (
	"sort"

	"google.golang.org/protobuf/types/descriptorpb"
)

// Config bounds the size of a generated bundle.
type Config struct {
	MaxPackages        int // local packages, 1..3 (with MaxPackages >= 3 the deep-package-graph shape, ~10% of the seeds, makes 4-5 smaller packages instead)
	MaxFilesPerPackage int // 1..3 .j5s files plus optional hand-written .proto files
	MaxElements        int // top-level elements per file; > 4 also switches to "large" mode (always MaxPackages packages, >= 1 dep, more fields / methods / events per element)
	MaxDeps            int // external dependency packages 0..2
}

// DefaultConfig is a modest bundle: compile+print well under 50ms.
func DefaultConfig() Config {
	return Config{MaxPackages: 3, MaxFilesPerPackage: 3, MaxElements: 3, MaxDeps: 2}
}

// SmallConfig is for speed-critical loops (not part of the required API).
func SmallConfig() Config {
	return Config{MaxPackages: 2, MaxFilesPerPackage: 2, MaxElements: 2, MaxDeps: 1}
}

// LargeConfig produces bigger files (more elements and fields per element).
func LargeConfig() Config {
	return Config{MaxPackages: 3, MaxFilesPerPackage: 3, MaxElements: 6, MaxDeps: 2}
}

// Bundle is one generated set of sources.
type Bundle struct {
	Packages []string                            // local package names, sorted
	Files    map[string]string                   // path ("foo/v1/a.j5s", "foo/v1/x.proto") -> source text
	Deps     []*descriptorpb.FileDescriptorProto // external dependency files, sorted by name; package never in Packages
	Features map[string]int                      // feature name -> how many times generated
}

// ---------------------------------------------------------------------------
// PRNG
// ---------------------------------------------------------------------------

type rng struct{ s uint64 }

func (r *rng) next() uint64 {
	r.s += 0x9e3779b97f4a7c15
	z := r.s
	z = (z ^ (z >> 30)) * 0xbf58476d1ce4e5b9
	z = (z ^ (z >> 27)) * 0x94d049bb133111eb
	return z ^ (z >> 31)
}

// intn returns a value in [0,n).
func (r *rng) intn(n int) int {
	if n <= 1 {
		return 0
	}
	return int(r.next() % uint64(n))
}

// between returns a value in [lo,hi].
func (r *rng) between(lo, hi int) int {
	if hi <= lo {
		return lo
	}
	return lo + r.intn(hi-lo+1)
}

func (r *rng) chance(pct int) bool { return r.intn(100) < pct }

func (r *rng) pick(list []string) string { return list[r.intn(len(list))] }

func (r *rng) shuffleInts(a []int) {
	for i := len(a) - 1; i > 0; i-- {
		j := r.intn(i + 1)
		a[i], a[j] = a[j], a[i]
	}
}

// ---------------------------------------------------------------------------
// Model
// ---------------------------------------------------------------------------

const (
	kObject = iota
	kOneof
	kEnum
)

const (
	oJ5s = iota
	oProto
	oDep
)

type pkgInfo struct {
	name   string // "acme.delta.v1"
	dir    string // "acme/delta/v1"
	short  string // "delta" (second to last segment)
	alias  string // alias to use for `import x:alias`
	local  bool
	order  int             // generation order (lower = generated earlier = may be imported by later)
	names  map[string]bool // reserved identifiers (membership only; never iterated)
	ents   []string        // entity names (snake) defined in this package
	sorted int             // index in sorted local package list (locals only)

	// exotic shapes (all maps: membership only, never iterated)
	restrict   bool              // allowed is in force (deep package graph)
	allowed    map[*pkgInfo]bool // local packages this one may import
	twin       *pkgInfo          // earlier package whose file and type names are mirrored
	protoOnly  bool              // only hand-written .proto files
	entityOnly bool              // a single .j5s file with only an entity
	fileNames  []string          // base names of the .j5s files (dep packages: .proto files)
	twoProtos  bool              // XFileOptions: at least two hand-written protos next to the .j5s files
	goPackages []string          // go_package values used by the hand-written protos so far
	imported   map[*pkgInfo]bool // packages some file of this package imports
	avoid      map[*pkgInfo]bool // packages that must not be imported (bare foreign refs)
}

type typeInfo struct {
	pkg     *pkgInfo
	name    string
	kind    int
	file    string // proto import path of the defining file
	src     string // source path of the defining file ("" for deps)
	origin  int
	options []string // enum option names without prefix
	owner   string   // top-level element that owns the type (entity derived types)
}

type gen struct {
	r     *rng
	cfg   Config
	large bool
	b     *Bundle
	types []*typeInfo // all types of files completed so far
	pkgs  []*pkgInfo  // local packages in generation order
	deps  []*pkgInfo  // dependency packages in generation order

	x         Exotic        // exotic shapes switched on for this bundle
	deep      bool          // deep package graph planned (XDeepGraph took effect)
	firstJ5s  bool          // no .j5s file generated yet
	prefixA   *pkgInfo      // XPkgPrefix: the two packages whose names are prefixes of each other
	prefixB   *pkgInfo      // ... (prefixB mirrors prefixA)
	sharedA   *pkgInfo      // XSharedShort: the two packages sharing their short name ...
	sharedB   *pkgInfo      // ... (sharedB mirrors sharedA)
	sharedImp *pkgInfo      // ... and the local package that imports both
	barePairs [][2]*pkgInfo // XBareForeign: (referring package, package of the entity) without an import between them
}

func (g *gen) feat(name string) { g.b.Features[name]++ }

func (g *gen) on(x Exotic) bool { return g.x&x != 0 }

// Exotic is a bit set of the "exotic but valid" bundle shapes. Every shape is
// switched on independently per bundle (by the seed) with the probability
// listed in exoticPct; Bundle.Features has an entry "x_<name>" for every
// shape that was switched on AND took effect.
type Exotic uint32

const (
	XDottedFiles    Exotic = 1 << iota // order.j5s + order.refund.j5s, both with service/topic; core.proto next to core.j5s
	XPkgPrefix                         // foo.v1 + foo.v10 / foo.bar.v1 + foo.barbaz.v1 with mirrored files and types
	XSharedShort                       // foo.bar.v1 + baz.bar.v1 imported by one file, refs by short alias and full name
	XAliasCollision                    // `import x.v1:alias` where alias is another package's implicit alias
	XBareForeign                       // `foreign = parent` (no package) to entities of packages that are not imported
	XDeepGraph                         // 4-5 local packages, 3-4 levels, level-skipping imports
	XEntityRich                        // query { } block, 2-3 summaries, keys of every format, nested types used by events
	XEnumRulesXref                     // rules.in / notIn on enums of other files / packages / protos / deps
	XObjectExotic                      // flatten, required enum, required bare key, oneofs with many options
	XProtoRich                         // hand-written protos: http services, option bodies, reserved, comments everywhere
	XDescExotic                        // descriptions / comments with unusual content
	XProtoOnlyPkg                      // one local package has only hand-written .proto files
	XEntityOnlyFile                    // one local package is a single .j5s file with only an entity
	XStrayFile                         // ignored user file under <pkg>/service/ or <pkg>/topic/
	XFileOptions                       // hand-written protos with file-level options; different go_package within one package that also has .j5s files
	XMultiCommand                      // entities with 2-3 command blocks (named / default) together with query options
	numExotic       = iota
)

// AllExotic has the bit of every shape that the seed may switch on.
const AllExotic Exotic = 1<<numExotic - 1

// XDepPkgPrefix: two DEPENDENCY packages whose names are string prefixes of
// each other (extone.v1 + extone.v10) exporting the same type names, used by
// local files. Before /repo 2ebf8ac the compiler turned it into a result that
// depended on the order in which the DependencySet lists its files - see
// limitation L22 - so the seed never chose it; now it does (depPkgPrefixPct).
// Not part of AllExotic.
const XDepPkgPrefix Exotic = 1 << numExotic

// depPkgPrefixPct is the probability (percent) with which the seed switches
// XDepPkgPrefix on. It was 0 while /repo had defect L22 (with 8 here the C14
// check reported it on the then unchanged tree; repaired in /repo 2ebf8ac).
const depPkgPrefixPct = 8

var exoticNames = [numExotic]string{
	"dotted_file_names", "pkg_name_prefix", "shared_short_name", "alias_collision",
	"bare_foreign_ref", "deep_pkg_graph", "entity_rich", "enum_rules_xref",
	"object_exotic", "proto_rich", "desc_exotic", "proto_only_pkg",
	"entity_only_file", "stray_subpkg_file", "proto_file_options", "entity_multi_command",
}

// probability (percent) of each shape per bundle
var exoticPct = [numExotic]int{14, 14, 16, 24, 15, 11, 22, 17, 15, 17, 15, 11, 11, 9, 16, 22}

// ExoticName returns the Features key suffix of a single shape bit.
func ExoticName(x Exotic) string {
	if x == XDepPkgPrefix {
		return "dep_pkg_name_prefix"
	}
	for i := 0; i < numExotic; i++ {
		if x == 1<<i {
			return exoticNames[i]
		}
	}
	return ""
}

// Tuning restricts / forces the exotic shapes (for tests and for bisecting).
// The zero value means "as decided by the seed".
type Tuning struct {
	Force  Exotic // always on (where the config allows the shape)
	Forbid Exotic // never on; wins over Force
}

// xfeat records that an exotic shape took effect (at most once per bundle).
func (g *gen) xfeat(x Exotic) {
	n := "x_" + ExoticName(x)
	if g.b.Features[n] == 0 {
		g.b.Features[n] = 1
	}
}

// Generate builds the bundle for a seed. Pure function of (seed, cfg).
func Generate(seed uint64, cfg Config) *Bundle {
	return GenerateWith(seed, cfg, Tuning{})
}

// GenerateWith is Generate with some exotic shapes forced / forbidden. Pure
// function of its arguments. With Forbid == AllExotic the output is exactly
// what the generator produced before the exotic shapes were added.
func GenerateWith(seed uint64, cfg Config, tune Tuning) *Bundle {
	if cfg.MaxPackages < 1 {
		cfg.MaxPackages = 1
	}
	if cfg.MaxPackages > 3 {
		cfg.MaxPackages = 3
	}
	if cfg.MaxFilesPerPackage < 1 {
		cfg.MaxFilesPerPackage = 1
	}
	if cfg.MaxFilesPerPackage > 3 {
		cfg.MaxFilesPerPackage = 3
	}
	if cfg.MaxElements < 1 {
		cfg.MaxElements = 1
	}
	if cfg.MaxDeps < 0 {
		cfg.MaxDeps = 0
	}
	if cfg.MaxDeps > 2 {
		cfg.MaxDeps = 2
	}
	g := &gen{
		r:     &rng{s: seed ^ 0x6a09e667f3bcc908},
		cfg:   cfg,
		large: cfg.MaxElements > 4,
		b: &Bundle{
			Files:    map[string]string{},
			Features: map[string]int{},
		},
	}
	// warm up so that small seeds diverge
	g.r.next()
	g.r.next()

	// The exotic shapes are drawn from a second stream so that switching one
	// of them off leaves the rest of the decisions of the bundle alone.
	tr := &rng{s: seed ^ 0xbb67ae8584caa73b}
	tr.next()
	tr.next()
	for i := 0; i < numExotic; i++ {
		if tr.chance(exoticPct[i]) {
			g.x |= 1 << i
		}
	}
	if tr.chance(depPkgPrefixPct) {
		g.x |= XDepPkgPrefix
	}
	g.x |= tune.Force
	g.x &^= tune.Forbid
	g.firstJ5s = true

	g.planPackages()
	for _, dp := range g.deps {
		g.genDepPackage(dp)
	}
	for _, p := range g.pkgs {
		g.genLocalPackage(p)
	}
	if g.on(XStrayFile) {
		g.genStrayFile()
	}

	for _, p := range g.pkgs {
		g.b.Packages = append(g.b.Packages, p.name)
	}
	sort.Strings(g.b.Packages)
	sort.Slice(g.b.Deps, func(i, j int) bool { return g.b.Deps[i].GetName() < g.b.Deps[j].GetName() })
	return g.b
}

// weighted picks an index by weight.
func (g *gen) weighted(weights []int) int {
	total := 0
	for _, w := range weights {
		total += w
	}
	if total <= 0 {
		return 0
	}
	n := g.r.intn(total)
	for i, w := range weights {
		if n < w {
			return i
		}
		n -= w
	}
	return len(weights) - 1
}
