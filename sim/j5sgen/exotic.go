package j5sgen

import (
	"strings"
)

// ---------------------------------------------------------------------------
// XDescExotic: descriptions and comments with unusual content
// ---------------------------------------------------------------------------

// Single-line texts. No tabs / control characters and only characters that
// strconv.Quote leaves alone (the BCL lexer knows the escapes \\ \" and
// backslash-newline only), because the same pool feeds quoted attributes.
var exoticTexts = []string{
	"Ünïcödé: naïve café, Straße, Ærø — “curly” ‘quotes’ … ✓ → ∑ ≠ 日本語のテスト 한국어 Ελληνικά кириллица 🚀",
	"has \"double\" and 'single' quotes, a `backtick` and a \\ backslash",
	"// looks like a comment, /* and like a block */ and a dangling */ too",
	"ends with a backslash \\",
	"a | pipe, || two pipes and a | third",
	"braces { } brackets [ ] parens ( ) = ; : , . ! ? @ # $ % ^ & * ~ < >",
	"//",
	"/* unterminated",
	"*/",
	"option A field b object Foo { } package x.v1 import y.v1",
	"trailing spaces   ",
	"x",
	"https://example.com/a/b?c=d&e=f#frag and mailto:someone@example.com",
	"1. first 2. second - dash * star + plus > quote # heading",
	"tab-free but    wide     gaps",
}

// exoticLine returns one unusual single-line text.
func (g *gen) exoticLine() string {
	r := g.r
	switch x := r.intn(100); {
	case x < 14:
		// very long line
		n := r.between(60, 140)
		parts := make([]string, n)
		for i := range parts {
			parts[i] = r.pick(descWords)
		}
		g.feat("desc_very_long_line")
		return strings.Join(parts, " ")
	case x < 26:
		g.feat("desc_exotic_text")
		return r.pick(exoticTexts) + " " + r.pick(exoticTexts)
	default:
		g.feat("desc_exotic_text")
		return r.pick(exoticTexts)
	}
}

// exoticDescBlock returns the lines of a `|` description block (without the
// leading bar): blank lines first / last / doubled, unusual texts.
func (g *gen) exoticDescBlock() []string {
	r := g.r
	var out []string
	if r.chance(35) {
		out = append(out, "")
		g.feat("desc_leading_blank_line")
		if r.chance(25) {
			out = append(out, "")
		}
	}
	n := r.between(1, 4)
	for i := 0; i < n; i++ {
		if i > 0 && r.chance(35) {
			out = append(out, "")
			if r.chance(30) {
				out = append(out, "")
			}
			g.feat("desc_inner_blank_line")
		}
		if r.chance(60) {
			out = append(out, g.exoticLine())
		} else {
			out = append(out, g.plainWords())
		}
	}
	if r.chance(35) {
		out = append(out, "")
		g.feat("desc_trailing_blank_line")
		if r.chance(25) {
			out = append(out, "")
		}
	}
	if len(out) > 1 {
		g.feat("desc_multiline")
	}
	g.xfeat(XDescExotic)
	return out
}

// barLines turns description lines into `| text` source lines.
func barLines(lines []string) []string {
	out := make([]string, len(lines))
	for i, l := range lines {
		if l == "" {
			out[i] = "|"
		} else {
			out[i] = "| " + l
		}
	}
	return out
}

// bclQuote quotes s as a BCL string; newlines become backslash-newline.
func bclQuote(s string) string {
	s = strings.ReplaceAll(s, "\\", "\\\\")
	s = strings.ReplaceAll(s, "\"", "\\\"")
	s = strings.ReplaceAll(s, "\n", "\\\n")
	return "\"" + s + "\""
}

// sourceComments returns comment lines for the .j5s source itself (they do
// not reach the output; they shift positions and exercise the lexer).
func (g *gen) sourceComments() []string {
	if !g.on(XDescExotic) || !g.r.chance(40) {
		return nil
	}
	r := g.r
	g.xfeat(XDescExotic)
	g.feat("j5s_source_comment")
	switch r.intn(3) {
	case 0:
		return []string{"// " + g.exoticLine()}
	case 1:
		return []string{"// " + g.plainWords(), "//", "//   " + g.exoticLine()}
	default:
		t := strings.ReplaceAll(g.exoticLine(), "*/", "* /")
		return []string{"/* " + g.plainWords(), "   " + t, "", " */"}
	}
}

// trailingComment returns " // text" for the end of a statement line (or "").
func (g *gen) trailingComment() string {
	if !g.on(XDescExotic) || !g.r.chance(12) {
		return ""
	}
	g.feat("j5s_trailing_comment")
	return " // " + g.exoticLine()
}

// ---------------------------------------------------------------------------
// XStrayFile: user files in the directories of the generated sub-packages
// ---------------------------------------------------------------------------

// genStrayFile adds a hand-written file under <pkg>/service/ or <pkg>/topic/.
// sourceResolver.listPackageFiles drops every file whose directory is not the
// package directory, so HEAD ignores it (nothing may import it: see L21).
func (g *gen) genStrayFile() {
	r := g.r
	p := g.pkgs[r.intn(len(g.pkgs))]
	sub := r.pick([]string{"service", "topic"})
	base := r.pick([]string{"notes", "legacy", "handwritten"})
	if len(p.fileNames) > 0 && r.chance(40) {
		// same base name as a generated <file>.p.j5s.proto, up to the extension
		base = p.fileNames[r.intn(len(p.fileNames))] + ".p"
		g.feat("stray_file_named_like_generated")
	}
	path := p.dir + "/" + sub + "/" + base + ".proto"
	name := r.pick(typeWordsA) + "Stray"
	lines := []string{
		`syntax = "proto3";`, "",
		"package " + p.name + "." + sub + ";", "",
		"// not part of any compiled package",
		"message " + name + " {",
		"  string " + snake(r.pick(fieldWordsA)) + " = 1;",
		"}",
	}
	g.b.Files[path] = strings.Join(lines, "\n") + "\n"
	g.feat("stray_" + sub + "_dir_file")
	g.xfeat(XStrayFile)
}
