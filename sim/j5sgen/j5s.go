package j5sgen

import (
	"fmt"
	"strings"
)

const (
	eObject = iota
	eOneof
	eEnum
	eEntity
	eService
	eTopic
)

type importInfo struct {
	pkg   *pkgInfo
	style int // 0 package, 1 alias, 2 file
	file  string
}

type element struct {
	kind   int
	name   string
	lines  []string   // pre-rendered (enums)
	nested []*element // entity nested schemas
	opts   []string   // enum options / entity statuses
	sums   []string   // entity named summaries
}

// fileGen generates one .j5s file.
type fileGen struct {
	g       *gen
	pkg     *pkgInfo
	src     string // foo/v1/a.j5s
	out     string // foo/v1/a.j5s.proto
	planned []*typeInfo
	imports []*importInfo
	first   bool // first object of the file not yet generated
}

var j5sBaseNames = []string{"core", "types", "api", "model", "extra", "state"}
var protoBaseNames = []string{"legacy", "common", "shared"}

// genLocalPackage generates all files of one local package.
func (g *gen) genLocalPackage(p *pkgInfo) {
	r := g.r
	nJ5s := 1
	if g.cfg.MaxFilesPerPackage > 1 {
		w := []int{44, 40, 16}[:g.cfg.MaxFilesPerPackage]
		nJ5s = 1 + g.weighted(w)
	}
	nProto := g.weighted([]int{48, 44, 8})
	j5sNames := g.distinct(j5sBaseNames, nJ5s)
	protoNames := g.distinct(protoBaseNames, nProto)

	// random interleaving of j5s and proto files = file dependency order
	type pf struct {
		name  string
		proto bool
	}
	var files []pf
	for _, n := range j5sNames {
		files = append(files, pf{n, false})
	}
	for _, n := range protoNames {
		files = append(files, pf{n, true})
	}
	idx := make([]int, len(files))
	for i := range idx {
		idx[i] = i
	}
	r.shuffleInts(idx)
	if nJ5s >= 2 {
		g.feat("pkg_multi_j5s_files")
	}
	if nProto > 0 {
		g.feat("pkg_has_local_proto")
	}
	for _, i := range idx {
		f := files[i]
		if f.proto {
			g.genLocalProto(p, p.dir+"/"+f.name+".proto")
		} else {
			g.genJ5sFile(p, p.dir+"/"+f.name+".j5s")
		}
	}
}

func (g *gen) genJ5sFile(p *pkgInfo, src string) {
	r := g.r
	fg := &fileGen{g: g, pkg: p, src: src, out: src + ".proto", first: true}

	// ---- plan ----
	maxE := g.cfg.MaxElements
	nElem := r.between(1, maxE)
	if g.large {
		nElem = r.between(2, maxE)
	}
	var elems []*element
	// The printer re-serialises the whole file descriptor for every
	// descriptor it prints (quadratic), and entities / services expand into
	// many messages: at most one entity and one service per file.
	w := []int{eObject: 24, eOneof: 11, eEnum: 16, eEntity: 15, eService: 17, eTopic: 17}
	for i := 0; i < nElem; i++ {
		// L3: the first element must put an object into the main file
		// (an entity does that too)
		kind := eObject
		if i > 0 {
			kind = g.weighted(w)
		} else if r.chance(15) {
			kind = eEntity
		}
		if kind == eEntity || kind == eService {
			w[kind] = 0
		}
		elems = append(elems, fg.planElement(kind))
	}

	// ---- render ----
	var body []string
	for _, e := range elems {
		body = append(body, "")
		body = append(body, fg.renderElement(e)...)
	}

	var out []string
	out = append(out, "package "+p.name, "")
	if len(fg.imports) > 0 {
		idx := make([]int, len(fg.imports))
		for i := range idx {
			idx[i] = i
		}
		r.shuffleInts(idx)
		for _, i := range idx {
			imp := fg.imports[i]
			switch imp.style {
			case 0:
				out = append(out, "import "+imp.pkg.name)
				g.feat("import_by_package")
			case 1:
				out = append(out, "import "+imp.pkg.name+":"+imp.pkg.alias)
				g.feat("import_by_alias")
			default:
				out = append(out, fmt.Sprintf("import %q", imp.file))
				g.feat("import_by_file")
			}
		}
		if len(fg.imports) >= 2 {
			g.feat("imports_multi")
		}
	}
	out = append(out, body...)
	text := strings.Join(out, "\n") + "\n"
	if r.chance(20) {
		text = strings.ReplaceAll(text, "\n  ", "\n\t") // mixed indentation
	}
	g.b.Files[src] = text
	g.feat("j5s_file")

	// publish types
	g.types = append(g.types, fg.planned...)
}

func (fg *fileGen) addPlanned(kind int, name, owner string, options []string) {
	fg.planned = append(fg.planned, &typeInfo{
		pkg: fg.pkg, name: name, kind: kind, file: fg.out, src: fg.src,
		origin: oJ5s, options: options, owner: owner,
	})
}

func entityDerived(n string) []string {
	return []string{
		n + "Keys", n + "Data", n + "Status", n + "State", n + "EventType", n + "Event",
		n + "Query", n + "QueryService", n + "Get", n + "GetRequest", n + "GetResponse",
		n + "List", n + "ListRequest", n + "ListResponse",
		n + "Events", n + "EventsRequest", n + "EventsResponse",
		n + "Command", n + "CommandService",
		n + "Publish", n + "PublishTopic", n + "EventMessage",
		n + "Summary", n + "SummaryTopic", n + "SummaryMessage",
	}
}

func (fg *fileGen) planElement(kind int) *element {
	g := fg.g
	r := g.r
	p := fg.pkg
	e := &element{kind: kind}
	switch kind {
	case eObject:
		e.name = g.typeName(p, nil)
		fg.addPlanned(kObject, e.name, e.name, nil)
	case eOneof:
		e.name = g.typeName(p, nil)
		fg.addPlanned(kOneof, e.name, e.name, nil)
	case eEnum:
		e.name = g.typeName(p, nil)
		e.lines = g.renderEnum("enum", e.name, &e.opts)
		fg.addPlanned(kEnum, e.name, e.name, e.opts)
	case eEntity:
		e.name = g.typeName(p, entityDerived)
		n := e.name
		// named summaries
		if r.chance(30) {
			for _, s := range g.distinct([]string{"Brief", "Digest", "Outline"}, r.between(1, 2)) {
				if p.reserve(n+s, n+s+"Topic", n+s+"Message") {
					e.sums = append(e.sums, s)
				}
			}
		}
		// nested schemas
		if r.chance(65) {
			nn := r.between(1, 3)
			for i := 0; i < nn; i++ {
				k := g.weighted([]int{eObject: 40, eOneof: 25, eEnum: 35})
				ne := &element{kind: k, name: g.typeName(p, nil)}
				switch k {
				case eObject:
					fg.addPlanned(kObject, ne.name, ne.name, nil)
				case eOneof:
					fg.addPlanned(kOneof, ne.name, ne.name, nil)
				case eEnum:
					ne.lines = g.renderEnum("enum", ne.name, &ne.opts)
					fg.addPlanned(kEnum, ne.name, ne.name, ne.opts)
				}
				e.nested = append(e.nested, ne)
			}
		}
		// statuses decided now so that the Status enum is referencable
		nStatus := r.between(2, 4)
		e.lines = g.enumOptionsKW("status", nStatus, &e.opts, nil)
		fg.addPlanned(kObject, n+"Keys", n, nil)
		fg.addPlanned(kObject, n+"Data", n, nil)
		fg.addPlanned(kObject, n+"State", n, nil)
		fg.addPlanned(kObject, n+"Event", n, nil)
		fg.addPlanned(kOneof, n+"EventType", n, nil)
		fg.addPlanned(kEnum, n+"Status", n, e.opts)
		p.ents = append(p.ents, snake(n))
	case eService:
		e.name = g.typeName(p, func(n string) []string { return []string{n + "Service"} })
	case eTopic:
		topicDerived := func(n string) []string {
			return []string{n + "Topic", n + "RequestTopic", n + "ReplyTopic", n + "Message", n + "Request", n + "Reply", n + "RequestMessage", n + "ReplyMessage"}
		}
		e.name = g.typeName(p, topicDerived)
		if r.chance(55) {
			// a second topic of another kind
			e.sums = append(e.sums, g.typeName(p, topicDerived))
		}
	}
	return e
}

func (fg *fileGen) renderElement(e *element) []string {
	switch e.kind {
	case eObject:
		return fg.renderObject("object", e.name)
	case eOneof:
		return fg.renderOneof("oneof", e.name)
	case eEnum:
		return e.lines
	case eEntity:
		return fg.renderEntity(e)
	case eService:
		return fg.renderService(e)
	default:
		kind := fg.g.weighted(topicKindWeights)
		out := fg.renderTopic(e.name, kind)
		for _, n2 := range e.sums {
			w := append([]int{}, topicKindWeights...)
			w[kind] = 0
			out = append(out, "")
			out = append(out, fg.renderTopic(n2, fg.g.weighted(w))...)
		}
		return out
	}
}

var topicKindWeights = []int{30, 30, 20, 20}

func indent(lines []string) []string {
	out := make([]string, len(lines))
	for i, l := range lines {
		if l == "" {
			out[i] = ""
		} else {
			out[i] = "  " + l
		}
	}
	return out
}

func (g *gen) descLines(feature string, pct int) []string {
	if !g.r.chance(pct) {
		return nil
	}
	g.feat(feature)
	out := []string{"| " + g.desc()}
	if g.r.chance(35) {
		out = append(out, "| "+g.desc())
		g.feat("desc_multiline")
	}
	out = append(out, "")
	return out
}

func (g *gen) nFields() int {
	if g.large {
		return g.r.between(2, 5)
	}
	return g.r.between(1, 4)
}

// ---------------------------------------------------------------------------
// enum
// ---------------------------------------------------------------------------

func (g *gen) renderEnum(kw, name string, opts *[]string) []string {
	r := g.r
	out := []string{kw + " " + name + " {"}
	out = append(out, indent(g.descLines("enum_desc", 50))...)
	if r.chance(12) {
		out = append(out, fmt.Sprintf("  prefix = %q", upperSnake(name)+"_OPT_"))
		g.feat("enum_prefix")
	}
	var keySet []string
	if r.chance(30) {
		keySet = g.distinct(infoKeys, r.between(2, 3))
		for _, k := range keySet {
			out = append(out, "  info {")
			out = append(out, fmt.Sprintf("    name = %q", k))
			out = append(out, fmt.Sprintf("    label = %q", strings.ToUpper(k[:1])+k[1:]))
			if r.chance(50) {
				out = append(out, fmt.Sprintf("    description = %q", g.plainDesc()))
			}
			out = append(out, "  }")
		}
		out = append(out, "")
		g.feat("enum_info_fields")
	}
	n := r.between(2, 4)
	out = append(out, indent(g.enumOptionsKW("option", n, opts, keySet))...)
	out = append(out, "}")
	g.feat("enum")
	if n >= 3 {
		g.feat("enum_many_options")
	}
	return out
}

// ---------------------------------------------------------------------------
// object / oneof
// ---------------------------------------------------------------------------

func (fg *fileGen) renderObject(kw, name string) []string {
	g := fg.g
	r := g.r
	c := &fctx{g: g, fg: fg, vt: &vtrack{}, exclude: name}
	names := newFieldNames()
	out := []string{kw + " " + name + " {"}
	out = append(out, indent(g.descLines("object_desc", 45))...)
	if r.chance(12) {
		out = append(out, fmt.Sprintf("  anyMember = [%q]", strings.ToLower(r.pick(typeWordsA))))
		g.feat("object_any_member")
	}
	var fields []string
	if fg.first {
		fg.first = false
		fields = append(fields, fg.forcedRefs(c, names)...)
	}
	fields = append(fields, c.properties("field", g.nFields(), 0, names, true)...)
	if c.vt.needs && !c.vt.anchors {
		fields = append(fields, c.anchor("field", names)...)
	}
	out = append(out, indent(fields)...)
	if r.chance(18) {
		nn := g.weighted([]int{0, 70, 30})
		subs := g.distinct([]string{"SubAlpha", "SubBeta", "SubGamma"}, nn)
		for _, s := range subs {
			// L8: nested declarations can not be referenced; L9: no ancestor refs
			nc := &fctx{g: g, fg: fg, vt: c.vt, exclude: name}
			out = append(out, "")
			out = append(out, "  object "+s+" {")
			out = append(out, indent(indent(g.descLines("object_desc", 30)))...)
			out = append(out, indent(indent(nc.properties("field", r.between(1, 2), 1, newFieldNames(), true)))...)
			out = append(out, "  }")
			g.feat("nested_object_decl")
		}
		if c.vt.needs && !c.vt.anchors {
			// nested fields are in the same file; put the anchor in a nested object of its own
			out = append(out, "", "  object SubAnchor {")
			out = append(out, indent(indent(c.anchor("field", newFieldNames())))...)
			out = append(out, "  }")
		}
	}
	out = append(out, "}")
	g.feat("object")
	return out
}

// forcedRefs adds fields which reference other files/packages/deps when
// available, so that the interesting import shapes appear often.
func (fg *fileGen) forcedRefs(c *fctx, names *fieldNames) []string {
	g := fg.g
	r := g.r
	var cats [4][]*typeInfo // local proto same pkg, j5s same pkg other file, other local pkg, dep
	for _, t := range g.types {
		switch {
		case t.pkg == fg.pkg && t.origin == oProto:
			cats[0] = append(cats[0], t)
		case t.pkg == fg.pkg:
			cats[1] = append(cats[1], t)
		case t.pkg.local:
			cats[2] = append(cats[2], t)
		default:
			cats[3] = append(cats[3], t)
		}
	}
	var out []string
	for ci, cat := range cats {
		if len(cat) == 0 || !r.chance(55) {
			continue
		}
		n := 1
		if ci >= 2 && r.chance(25) {
			n = 2
		}
		for i := 0; i < n; i++ {
			t := cat[r.intn(len(cat))]
			text := fg.refText(t)
			var ft ftype
			switch t.kind {
			case kObject:
				ft = ftype{typ: "object:" + text, hasExt: true, canOptional: true}
			case kOneof:
				ft = ftype{typ: "oneof:" + text, hasExt: true, canOptional: true}
			default:
				ft = ftype{typ: "enum:" + text, hasExt: true, hasV: true, anchorsV: true, canOptional: true}
				if len(t.options) > 0 && r.chance(40) {
					ft.attrs = append(ft.attrs, fmt.Sprintf("rules.in = [%q]", r.pick(t.options)))
					g.feat("enum_rules_in")
				}
			}
			if r.chance(35) {
				ft.typ = "array:" + ft.typ
				ft.canOptional = false
				if len(ft.attrs) > 0 {
					ft.attrs[0] = "items.enum." + ft.attrs[0]
				}
				if r.chance(50) {
					ft.attrs = append(ft.attrs, fmt.Sprintf("rules.minItems = %d", r.between(0, 2)))
				}
			}
			out = append(out, c.renderProperty("field", g.fieldName(names), ft, true)...)
		}
	}
	return out
}

func (fg *fileGen) renderOneof(kw, name string) []string {
	g := fg.g
	c := &fctx{g: g, fg: fg, vt: &vtrack{}, exclude: name}
	names := newFieldNames()
	out := []string{kw + " " + name + " {"}
	out = append(out, indent(g.descLines("oneof_desc", 40))...)
	n := g.r.between(2, 4)
	fields := c.properties("option", n, 0, names, false)
	if c.vt.needs && !c.vt.anchors {
		fields = append(fields, c.anchor("option", names)...)
	}
	out = append(out, indent(fields)...)
	out = append(out, "}")
	g.feat("oneof")
	if n >= 3 {
		g.feat("oneof_many_options")
	}
	return out
}

// ---------------------------------------------------------------------------
// references and imports
// ---------------------------------------------------------------------------

// pickRef chooses a type of the kind which may legally be referenced from
// this file (same file, earlier files of this package, earlier packages,
// deps). exclude is the owner whose types must not be used (L9).
func (fg *fileGen) pickRef(kind int, exclude string) (string, *typeInfo) {
	g := fg.g
	var cats [4][]*typeInfo
	for _, t := range fg.planned {
		if t.kind == kind && t.owner != exclude {
			cats[0] = append(cats[0], t)
		}
	}
	for _, t := range g.types {
		if t.kind != kind {
			continue
		}
		switch {
		case t.pkg == fg.pkg:
			cats[1] = append(cats[1], t)
		case t.pkg.local:
			cats[2] = append(cats[2], t)
		default:
			cats[3] = append(cats[3], t)
		}
	}
	w := []int{30, 28, 30, 20}
	any := false
	for i := range cats {
		if len(cats[i]) == 0 {
			w[i] = 0
		} else {
			any = true
		}
	}
	if !any {
		return "", nil
	}
	cat := cats[g.weighted(w)]
	t := cat[g.r.intn(len(cat))]
	return fg.refText(t), t
}

func (fg *fileGen) refText(t *typeInfo) string {
	g := fg.g
	r := g.r
	if t.owner != t.name {
		g.feat("ref_entity_derived_type")
	}
	if t.pkg == fg.pkg {
		if t.file != fg.out {
			g.feat("cross_file_ref_same_pkg")
			if t.origin == oProto {
				g.feat("j5s_uses_local_proto")
			}
		}
		if r.chance(15) {
			g.feat("ref_qualified_same_pkg")
			return t.pkg.name + "." + t.name
		}
		return t.name
	}
	var imp *importInfo
	for _, i := range fg.imports {
		if i.pkg == t.pkg {
			imp = i
			break
		}
	}
	if imp == nil {
		imp = &importInfo{pkg: t.pkg, style: g.weighted([]int{38, 27, 35}), file: t.file}
		fg.imports = append(fg.imports, imp)
	}
	if t.pkg.local {
		g.feat("cross_pkg_ref")
		if fg.pkg.sorted < t.pkg.sorted {
			g.feat("cross_pkg_ref_first_imports_later")
		} else {
			g.feat("cross_pkg_ref_later_imports_first")
		}
		if t.origin == oProto {
			g.feat("j5s_uses_other_pkg_proto")
		}
	} else {
		g.feat("dep_import")
		if t.kind == kEnum {
			g.feat("dep_enum_ref")
		}
	}
	switch imp.style {
	case 0:
		if r.chance(50) {
			g.feat("ref_short_pkg")
			return t.pkg.short + "." + t.name
		}
		return t.pkg.name + "." + t.name
	case 1:
		return t.pkg.alias + "." + t.name
	default:
		return t.pkg.name + "." + t.name
	}
}
