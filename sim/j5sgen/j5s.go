package j5sgen

import (
	"fmt"
	"strings"
)

const (
	eObject = iota
	eOneof
	eEnum
	eEntity
	eService
	eTopic
)

type importInfo struct {
	pkg   *pkgInfo
	style int // 0 package, 1 alias, 2 file
	file  string

	alias     string // style 1: the alias written after the colon
	shortLost bool   // style 0: the implicit short alias belongs to another import of this file
	shortUsed bool   // style 0: some reference was written through the implicit short alias
	hasLosers bool   // another import lost its implicit alias to this one: must be written after it
}

type element struct {
	kind   int
	name   string
	lines  []string   // pre-rendered (enums)
	nested []*element // entity nested schemas
	opts   []string   // enum options / entity statuses
	sums   []string   // entity named summaries
	rich   bool       // entity: XEntityRich shape
	cmds   []string   // entity: XMultiCommand command block names ("" = the default FooCommand)
}

// fileGen generates one .j5s file.
type fileGen struct {
	g       *gen
	pkg     *pkgInfo
	src     string // foo/v1/a.j5s
	out     string // foo/v1/a.j5s.proto
	planned []*typeInfo
	imports []*importInfo
	first   bool // first object of the file not yet generated

	aliasOwner  map[string]*importInfo // alias -> import owning it (membership / lookup only)
	refForm     int                    // refText: 0 random, 1 short alias if possible, 2 full package name
	firstInPkg  bool                   // first .j5s file of its package
	forceKinds  []int                  // element kinds that must appear (after the first element)
	entityOnly  bool
	exoticObjs  int  // exotic objects rendered so far
	maxElems    int  // 0: cfg.MaxElements
	leanMethods bool // renderMethod: at most one path parameter / extra field (several command blocks)
}

var j5sBaseNames = []string{"core", "types", "api", "model", "extra", "state"}
var protoBaseNames = []string{"legacy", "common", "shared"}

// genLocalPackage generates all files of one local package.
func (g *gen) genLocalPackage(p *pkgInfo) {
	r := g.r
	nJ5s := 1
	if g.cfg.MaxFilesPerPackage > 1 {
		w := []int{44, 40, 16}[:g.cfg.MaxFilesPerPackage]
		nJ5s = 1 + g.weighted(w)
	}
	nProto := g.weighted([]int{48, 44, 8})
	j5sNames := g.distinct(j5sBaseNames, nJ5s)
	protoNames := g.distinct(protoBaseNames, nProto)

	// ---- exotic shapes ----
	dotted := false
	switch {
	case p.protoOnly:
		j5sNames = nil
		if len(protoNames) == 0 {
			protoNames = g.distinct(protoBaseNames, r.between(1, 2))
		}
	case p.entityOnly:
		j5sNames = j5sNames[:1]
		protoNames = nil
	default:
		if g.deep {
			// many packages: keep each of them small
			j5sNames = j5sNames[:1]
			if len(protoNames) > 1 {
				protoNames = protoNames[:1]
			}
		}
		if p.twoProtos && len(protoNames) < 2 {
			// two hand-written files (with different go_package options) instead of a second / third .j5s file
			protoNames = g.distinct(protoBaseNames, 2+g.weighted([]int{80, 20}))
			if len(j5sNames) > 1 {
				j5sNames = j5sNames[:len(j5sNames)-1]
			}
		}
		if p.twin != nil && p.twin.local {
			// same-named files in both packages
			var mirrored []string
			for _, n := range p.twin.fileNames {
				if len(mirrored) < len(j5sNames) {
					mirrored = append(mirrored, n)
				}
			}
			for _, n := range j5sNames {
				dup := false
				for _, m := range mirrored {
					if m == n {
						dup = true
					}
				}
				if !dup && len(mirrored) < len(j5sNames) {
					mirrored = append(mirrored, n)
				}
			}
			if len(p.twin.fileNames) > 0 {
				g.feat("twin_file_name")
			}
			j5sNames = mirrored
		} else if g.on(XDottedFiles) {
			// order.j5s + order.refund.j5s (+ order.refund.v2.j5s): all of them
			// produce service/ and topic/ files whose names differ only
			// between the dots
			if len(j5sNames) == 1 && g.cfg.MaxFilesPerPackage >= 2 && !g.deep && r.chance(60) {
				j5sNames = append(j5sNames, "")
			}
			if len(j5sNames) >= 2 {
				words := g.distinct([]string{"refund", "v2", "part", "p", "j5s", "draft"}, 2)
				j5sNames[1] = j5sNames[0] + "." + words[0]
				if len(j5sNames) >= 3 {
					j5sNames[2] = j5sNames[1] + "." + words[1]
				}
				dotted = true
				g.xfeat(XDottedFiles)
				g.feat("dotted_j5s_file_name")
				// hand-written files whose names clash with the generated ones up to the extension
				for k := range protoNames {
					if r.chance(60) {
						if k == 0 {
							protoNames[k] = j5sNames[0] // core.proto next to core.j5s(.proto)
						} else {
							protoNames[k] = j5sNames[0] + "." + protoNames[k]
						}
						g.feat("proto_name_like_j5s_file")
					}
				}
			}
		}
	}
	p.fileNames = append([]string{}, j5sNames...)

	// random interleaving of j5s and proto files = file dependency order
	type pf struct {
		name  string
		proto bool
	}
	var files []pf
	for _, n := range j5sNames {
		files = append(files, pf{n, false})
	}
	for _, n := range protoNames {
		files = append(files, pf{n, true})
	}
	idx := make([]int, len(files))
	for i := range idx {
		idx[i] = i
	}
	r.shuffleInts(idx)
	if len(j5sNames) >= 2 {
		g.feat("pkg_multi_j5s_files")
	}
	if len(protoNames) > 0 {
		g.feat("pkg_has_local_proto")
	}
	firstJ5s := true
	for _, i := range idx {
		f := files[i]
		if f.proto {
			g.genLocalProto(p, p.dir+"/"+f.name+".proto")
			continue
		}
		fg := &fileGen{g: g, pkg: p, first: true, firstInPkg: firstJ5s, entityOnly: p.entityOnly, aliasOwner: map[string]*importInfo{}}
		firstJ5s = false
		if dotted {
			// both a service and a topic in most of the dotted files
			switch x := r.intn(10); {
			case x < 3:
				fg.forceKinds = []int{eService}
			case x < 6:
				fg.forceKinds = []int{eTopic}
			default:
				fg.forceKinds = []int{eService, eTopic}
			}
			// service + topic + the L3 object are the whole file then
			fg.maxElems = 3
		}
		if g.deep {
			fg.maxElems = 2
		}
		g.genJ5sFile(fg, p.dir+"/"+f.name+".j5s")
	}
}

func (g *gen) genJ5sFile(fg *fileGen, src string) {
	r := g.r
	p := fg.pkg
	fg.src, fg.out = src, src+".proto"

	// ---- plan ----
	maxE := g.cfg.MaxElements
	if fg.maxElems > 0 && maxE > fg.maxElems {
		maxE = fg.maxElems
	}
	nElem := r.between(1, maxE)
	if g.large {
		nElem = r.between(2, maxE)
	}
	var elems []*element
	// The printer re-serialises the whole file descriptor for every
	// descriptor it prints (quadratic), and entities / services expand into
	// many messages: at most one entity and one service per file.
	w := []int{eObject: 24, eOneof: 11, eEnum: 16, eEntity: 15, eService: 17, eTopic: 17}

	// ---- exotic shapes: kinds that must appear. They REPLACE random
	// elements (they take the last slots) instead of adding to them.
	first0 := -1
	var forced []int
	addForced := func(k int) {
		if k == first0 {
			return
		}
		for _, f := range forced {
			if f == k {
				return
			}
		}
		forced = append(forced, k)
	}
	if fg.entityOnly {
		nElem, first0 = 1, eEntity
		g.feat("j5s_file_entity_only")
	} else {
		if g.firstJ5s && g.on(XBareForeign) && r.chance(50) {
			// bare foreign references like an entity to point at (they are
			// never resolved, so they do without one as well)
			if r.chance(50) {
				first0 = eEntity
			} else {
				addForced(eEntity)
			}
		}
		// XEntityRich and XMultiCommand shape the entities that are there
		// anyway (2/3 of the Default bundles have one): forcing an extra
		// entity into every bundle costs ~12 ms each.
		if (g.on(XEntityRich) || g.on(XMultiCommand)) && g.firstJ5s && r.chance(30) {
			addForced(eEntity)
		}
		if g.on(XEnumRulesXref) && fg.firstInPkg && r.chance(70) {
			addForced(eEnum)
		}
		for _, k := range fg.forceKinds {
			addForced(k)
		}
		if len(forced) >= 2 && forced[0] == eEntity {
			first0, forced = eEntity, forced[1:]
		}
		if nElem < 1+len(forced) {
			nElem = 1 + len(forced)
		}
		// A forced entity is paid for: the rest of the file is made of cheap
		// elements (no service, hardly a topic) and the file stays short.
		entityForced := first0 == eEntity
		for _, f := range forced {
			if f == eEntity {
				entityForced = true
			}
		}
		if entityForced {
			keepSvc, keepTopic := false, false
			for _, f := range forced {
				keepSvc = keepSvc || f == eService
				keepTopic = keepTopic || f == eTopic
			}
			if !keepSvc {
				w[eService] = 0
			}
			if !keepTopic {
				w[eTopic] = 4
			}
			if min := 1 + len(forced); nElem > min && nElem > 2 {
				nElem = 2
				if min > 2 {
					nElem = min
				}
			}
		}
	}
	g.firstJ5s = false
	var kinds []int
	chosen := func(k int) bool {
		for _, x := range kinds {
			if x == k {
				return true
			}
		}
		return false
	}
	for i := 0; i < nElem; i++ {
		// L3: the first element must put an object into the main file
		// (an entity does that too)
		kind := eObject
		if i > 0 {
			kind = g.weighted(w)
		} else if r.chance(15) {
			kind = eEntity
		}
		if i == 0 && first0 >= 0 {
			kind = first0
		}
		if i > 0 && len(forced) > 0 {
			var pending []int
			for _, f := range forced {
				if !chosen(f) && f != kind {
					pending = append(pending, f)
				}
			}
			if len(pending) > nElem-i-1 {
				kind = pending[0]
			}
		}
		if kind == eEntity || kind == eService {
			w[kind] = 0
		}
		kinds = append(kinds, kind)
		elems = append(elems, fg.planElement(kind))
	}

	// ---- render ----
	var body []string
	for _, e := range elems {
		body = append(body, "")
		body = append(body, g.sourceComments()...)
		body = append(body, fg.renderElement(e)...)
	}

	var out []string
	out = append(out, g.sourceComments()...)
	out = append(out, "package "+p.name, "")
	if len(fg.imports) > 0 {
		idx := make([]int, len(fg.imports))
		for i := range idx {
			idx[i] = i
		}
		r.shuffleInts(idx)
		// An alias is owned by the LAST import that defines it (j5Imports
		// fills a map in file order): imports that won an alias clash are
		// written after the others.
		var order []int
		for _, i := range idx {
			if !fg.imports[i].hasLosers {
				order = append(order, i)
			}
		}
		for _, i := range idx {
			if fg.imports[i].hasLosers {
				order = append(order, i)
			}
		}
		for _, i := range order {
			imp := fg.imports[i]
			switch imp.style {
			case 0:
				out = append(out, "import "+imp.pkg.name)
				g.feat("import_by_package")
			case 1:
				out = append(out, "import "+imp.pkg.name+":"+imp.alias)
				g.feat("import_by_alias")
			default:
				out = append(out, fmt.Sprintf("import %q", imp.file))
				g.feat("import_by_file")
			}
		}
		if len(fg.imports) >= 2 {
			g.feat("imports_multi")
		}
	}
	out = append(out, body...)
	text := strings.Join(out, "\n") + "\n"
	if r.chance(20) {
		text = strings.ReplaceAll(text, "\n  ", "\n\t") // mixed indentation
	}
	g.b.Files[src] = text
	g.feat("j5s_file")

	// publish types
	g.types = append(g.types, fg.planned...)
}

func (fg *fileGen) addPlanned(kind int, name, owner string, options []string) {
	fg.planned = append(fg.planned, &typeInfo{
		pkg: fg.pkg, name: name, kind: kind, file: fg.out, src: fg.src,
		origin: oJ5s, options: options, owner: owner,
	})
}

func entityDerived(n string) []string {
	return []string{
		n + "Keys", n + "Data", n + "Status", n + "State", n + "EventType", n + "Event",
		n + "Query", n + "QueryService", n + "Get", n + "GetRequest", n + "GetResponse",
		n + "List", n + "ListRequest", n + "ListResponse",
		n + "Events", n + "EventsRequest", n + "EventsResponse",
		n + "Command", n + "CommandService",
		n + "Publish", n + "PublishTopic", n + "EventMessage",
		n + "Summary", n + "SummaryTopic", n + "SummaryMessage",
	}
}

func (fg *fileGen) planElement(kind int) *element {
	g := fg.g
	r := g.r
	p := fg.pkg
	e := &element{kind: kind}
	switch kind {
	case eObject:
		e.name = g.typeNameK(p, kObject, nil)
		fg.addPlanned(kObject, e.name, e.name, nil)
	case eOneof:
		e.name = g.typeNameK(p, kOneof, nil)
		fg.addPlanned(kOneof, e.name, e.name, nil)
	case eEnum:
		e.name = g.typeNameK(p, kEnum, nil)
		e.lines = g.renderEnum("enum", e.name, &e.opts)
		fg.addPlanned(kEnum, e.name, e.name, e.opts)
	case eEntity:
		e.name = g.typeNameK(p, kEntity, entityDerived)
		n := e.name
		e.rich = g.on(XEntityRich) && (fg.entityOnly || r.chance(75))
		// several command blocks: `command { }` is FooCommandService,
		// `command Admin { }` and `command AdminCommand { }` are AdminCommandService
		if g.on(XMultiCommand) && r.chance(85) {
			want := 2 + g.weighted([]int{70, 30})
			for i, base := range g.distinct([]string{"Admin", "Ops", "Internal", "Batch", "Review", "Support", "Backoffice"}, 7) {
				if len(e.cmds) >= want {
					break
				}
				if i == 0 && r.chance(60) {
					e.cmds = append(e.cmds, "")
					continue
				}
				// the service lives in <pkg>.service; reserve it package-wide all the same
				if !p.reserve(base+"Command", base+"CommandService") {
					continue
				}
				if r.chance(30) {
					base += "Command"
				}
				e.cmds = append(e.cmds, base)
			}
		}
		lean := len(e.cmds) > 0 && !e.rich // the command blocks replace summaries and nested schemas
		// named summaries
		if e.rich || (!lean && r.chance(30)) {
			ns := r.between(1, 2)
			for _, s := range g.distinct([]string{"Brief", "Digest", "Outline"}, ns) {
				if p.reserve(n+s, n+s+"Topic", n+s+"Message") {
					e.sums = append(e.sums, s)
				}
			}
		}
		// nested schemas
		if e.rich || r.chance(65) {
			nn := r.between(1, 3)
			if lean {
				nn = 1
			}
			var nestKinds []int
			if e.rich {
				// an enum plus an object and / or a oneof, all used by events
				nestKinds = []int{eEnum, eObject, eOneof}[:2+g.weighted([]int{65, 35})]
				nn = len(nestKinds)
			}
			for i := 0; i < nn; i++ {
				var k int
				if nestKinds != nil {
					k = nestKinds[i]
				} else {
					k = g.weighted([]int{eObject: 40, eOneof: 25, eEnum: 35})
				}
				ne := &element{kind: k, name: g.typeName(p, nil)}
				switch k {
				case eObject:
					fg.addPlanned(kObject, ne.name, ne.name, nil)
				case eOneof:
					fg.addPlanned(kOneof, ne.name, ne.name, nil)
				case eEnum:
					ne.lines = g.renderEnum("enum", ne.name, &ne.opts)
					fg.addPlanned(kEnum, ne.name, ne.name, ne.opts)
				}
				e.nested = append(e.nested, ne)
			}
		}
		// statuses decided now so that the Status enum is referencable
		nStatus := r.between(2, 4)
		e.lines = g.enumOptionsKW("status", nStatus, &e.opts, nil)
		fg.addPlanned(kObject, n+"Keys", n, nil)
		fg.addPlanned(kObject, n+"Data", n, nil)
		fg.addPlanned(kObject, n+"State", n, nil)
		fg.addPlanned(kObject, n+"Event", n, nil)
		fg.addPlanned(kOneof, n+"EventType", n, nil)
		fg.addPlanned(kEnum, n+"Status", n, e.opts)
		p.ents = append(p.ents, snake(n))
	case eService:
		e.name = g.typeName(p, func(n string) []string { return []string{n + "Service"} })
	case eTopic:
		topicDerived := func(n string) []string {
			return []string{n + "Topic", n + "RequestTopic", n + "ReplyTopic", n + "Message", n + "Request", n + "Reply", n + "RequestMessage", n + "ReplyMessage"}
		}
		e.name = g.typeName(p, topicDerived)
		if r.chance(55) {
			// a second topic of another kind
			e.sums = append(e.sums, g.typeName(p, topicDerived))
		}
	}
	return e
}

func (fg *fileGen) renderElement(e *element) []string {
	switch e.kind {
	case eObject:
		return fg.renderObject("object", e.name)
	case eOneof:
		return fg.renderOneof("oneof", e.name)
	case eEnum:
		return e.lines
	case eEntity:
		return fg.renderEntity(e)
	case eService:
		return fg.renderService(e)
	default:
		kind := fg.g.weighted(topicKindWeights)
		out := fg.renderTopic(e.name, kind)
		for _, n2 := range e.sums {
			w := append([]int{}, topicKindWeights...)
			w[kind] = 0
			out = append(out, "")
			out = append(out, fg.renderTopic(n2, fg.g.weighted(w))...)
		}
		return out
	}
}

var topicKindWeights = []int{30, 30, 20, 20}

func indent(lines []string) []string {
	out := make([]string, len(lines))
	for i, l := range lines {
		if l == "" {
			out[i] = ""
		} else {
			out[i] = "  " + l
		}
	}
	return out
}

func (g *gen) descLines(feature string, pct int) []string {
	if !g.r.chance(pct) {
		return nil
	}
	g.feat(feature)
	if g.on(XDescExotic) && g.r.chance(50) {
		return append(barLines(g.exoticDescBlock()), "")
	}
	out := []string{"| " + g.desc()}
	if g.r.chance(35) {
		out = append(out, "| "+g.desc())
		g.feat("desc_multiline")
	}
	out = append(out, "")
	return out
}

func (g *gen) nFields() int {
	if g.large {
		return g.r.between(2, 5)
	}
	return g.r.between(1, 4)
}

// ---------------------------------------------------------------------------
// enum
// ---------------------------------------------------------------------------

func (g *gen) renderEnum(kw, name string, opts *[]string) []string {
	r := g.r
	out := []string{kw + " " + name + " {"}
	out = append(out, indent(g.descLines("enum_desc", 50))...)
	if r.chance(12) {
		out = append(out, fmt.Sprintf("  prefix = %q", upperSnake(name)+"_OPT_"))
		g.feat("enum_prefix")
	}
	var keySet []string
	if r.chance(30) {
		keySet = g.distinct(infoKeys, r.between(2, 3))
		for _, k := range keySet {
			out = append(out, "  info {")
			out = append(out, fmt.Sprintf("    name = %q", k))
			out = append(out, fmt.Sprintf("    label = %q", strings.ToUpper(k[:1])+k[1:]))
			if r.chance(50) {
				out = append(out, fmt.Sprintf("    description = %q", g.plainDesc()))
			}
			out = append(out, "  }")
		}
		out = append(out, "")
		g.feat("enum_info_fields")
	}
	n := r.between(2, 4)
	out = append(out, indent(g.enumOptionsKW("option", n, opts, keySet))...)
	out = append(out, "}")
	g.feat("enum")
	if n >= 3 {
		g.feat("enum_many_options")
	}
	return out
}

// ---------------------------------------------------------------------------
// object / oneof
// ---------------------------------------------------------------------------

func (fg *fileGen) renderObject(kw, name string) []string {
	g := fg.g
	r := g.r
	c := &fctx{g: g, fg: fg, vt: &vtrack{}, exclude: name}
	names := newFieldNames()
	out := []string{kw + " " + name + " {"}
	out = append(out, indent(g.descLines("object_desc", 45))...)
	if r.chance(12) {
		out = append(out, fmt.Sprintf("  anyMember = [%q]", strings.ToLower(r.pick(typeWordsA))))
		g.feat("object_any_member")
	}
	var fields []string
	nExotic := 0
	if fg.first {
		fg.first = false
		fields = append(fields, fg.forcedRefs(c, names)...)
		x := fg.exoticRefs(c, names)
		nExotic = len(x)
		for _, f := range x {
			fields = append(fields, f...)
		}
	}
	nf := g.nFields()
	if kw == "object" && g.on(XObjectExotic) && fg.exoticObjs < 2 && r.chance(65) {
		fg.exoticObjs++
		x := fg.exoticFields(c, names)
		nExotic += len(x)
		for _, f := range x {
			fields = append(fields, f...)
		}
	}
	if nExotic > 0 {
		// the exotic fields replace random ones
		nf -= nExotic
		if nf < 0 {
			nf = 0
		}
		if nf > 1 {
			nf = 1
		}
	}
	fields = append(fields, c.properties("field", nf, 0, names, true)...)
	if c.vt.needs && !c.vt.anchors {
		fields = append(fields, c.anchor("field", names)...)
	}
	out = append(out, indent(fields)...)
	if r.chance(18) {
		nn := g.weighted([]int{0, 70, 30})
		subs := g.distinct([]string{"SubAlpha", "SubBeta", "SubGamma"}, nn)
		for _, s := range subs {
			// L8: nested declarations can not be referenced; L9: no ancestor refs
			nc := &fctx{g: g, fg: fg, vt: c.vt, exclude: name}
			out = append(out, "")
			out = append(out, "  object "+s+" {")
			out = append(out, indent(indent(g.descLines("object_desc", 30)))...)
			out = append(out, indent(indent(nc.properties("field", r.between(1, 2), 1, newFieldNames(), true)))...)
			out = append(out, "  }")
			g.feat("nested_object_decl")
		}
		if c.vt.needs && !c.vt.anchors {
			// nested fields are in the same file; put the anchor in a nested object of its own
			out = append(out, "", "  object SubAnchor {")
			out = append(out, indent(indent(c.anchor("field", newFieldNames())))...)
			out = append(out, "  }")
		}
	}
	out = append(out, "}")
	g.feat("object")
	return out
}

// forcedRefs adds fields which reference other files/packages/deps when
// available, so that the interesting import shapes appear often.
func (fg *fileGen) forcedRefs(c *fctx, names *fieldNames) []string {
	g := fg.g
	r := g.r
	var cats [4][]*typeInfo // local proto same pkg, j5s same pkg other file, other local pkg, dep
	for _, t := range g.types {
		if !fg.mayRef(t.pkg) {
			continue
		}
		switch {
		case t.pkg == fg.pkg && t.origin == oProto:
			cats[0] = append(cats[0], t)
		case t.pkg == fg.pkg:
			cats[1] = append(cats[1], t)
		case t.pkg.local:
			cats[2] = append(cats[2], t)
		default:
			cats[3] = append(cats[3], t)
		}
	}
	var out []string
	for ci, cat := range cats {
		if len(cat) == 0 || !r.chance(55) {
			continue
		}
		n := 1
		if ci >= 2 && r.chance(25) {
			n = 2
		}
		for i := 0; i < n; i++ {
			t := cat[r.intn(len(cat))]
			text := fg.refText(t)
			var ft ftype
			switch t.kind {
			case kObject:
				ft = ftype{typ: "object:" + text, hasExt: true, canOptional: true}
			case kOneof:
				ft = ftype{typ: "oneof:" + text, hasExt: true, canOptional: true}
			default:
				ft = ftype{typ: "enum:" + text, hasExt: true, hasV: true, anchorsV: true, canOptional: true}
				if len(t.options) > 0 && r.chance(40) {
					ft.attrs = append(ft.attrs, fmt.Sprintf("rules.in = [%q]", r.pick(t.options)))
					g.feat("enum_rules_in")
					fg.enumRuleFeat(t)
				}
			}
			if r.chance(35) {
				ft.typ = "array:" + ft.typ
				ft.canOptional = false
				if len(ft.attrs) > 0 {
					ft.attrs[0] = "items.enum." + ft.attrs[0]
				}
				if r.chance(50) {
					ft.attrs = append(ft.attrs, fmt.Sprintf("rules.minItems = %d", r.between(0, 2)))
				}
			}
			out = append(out, c.renderProperty("field", g.fieldName(names), ft, true)...)
		}
	}
	return out
}

// enumRuleFeat counts where the enum of a rules.in / rules.notIn lives
// relative to the file using it.
func (fg *fileGen) enumRuleFeat(t *typeInfo) {
	g := fg.g
	switch {
	case t.origin == oDep:
		g.feat("enum_rules_on_dep_enum")
	case t.origin == oProto && t.pkg == fg.pkg:
		g.feat("enum_rules_on_local_proto_enum")
	case t.origin == oProto:
		g.feat("enum_rules_on_other_pkg_proto_enum")
	case t.pkg != fg.pkg:
		g.feat("enum_rules_on_other_pkg_j5s_enum")
	case t.file != fg.out:
		g.feat("enum_rules_on_other_j5s_file_enum")
	default:
		g.feat("enum_rules_on_same_file_enum")
	}
}

// refField renders one field referencing t. form: see fileGen.refForm.
func (fg *fileGen) refField(c *fctx, names *fieldNames, t *typeInfo, form int, attrs ...string) []string {
	fg.refForm = form
	text := fg.refText(t)
	fg.refForm = 0
	var ft ftype
	switch t.kind {
	case kObject:
		ft = ftype{typ: "object:" + text, hasExt: true, canOptional: true}
	case kOneof:
		ft = ftype{typ: "oneof:" + text, hasExt: true, canOptional: true}
	default:
		ft = ftype{typ: "enum:" + text, hasExt: true, hasV: true, anchorsV: true, canOptional: true}
	}
	ft.attrs = attrs
	return c.renderProperty("field", fg.g.fieldName(names), ft, true)
}

// anyType picks a type of package q (nil if it has none yet).
func (g *gen) anyType(q *pkgInfo) *typeInfo {
	var ts []*typeInfo
	for _, t := range g.types {
		if t.pkg == q {
			ts = append(ts, t)
		}
	}
	if len(ts) == 0 {
		return nil
	}
	return ts[g.r.intn(len(ts))]
}

// commonType picks a type of package a and one of package b, with equal
// names and kinds if the packages have such a pair.
func (g *gen) commonType(a, b *pkgInfo) (*typeInfo, *typeInfo) {
	var as, bs, pa, pb []*typeInfo
	for _, t := range g.types {
		if t.pkg == a {
			as = append(as, t)
		} else if t.pkg == b {
			bs = append(bs, t)
		}
	}
	for _, x := range as {
		for _, y := range bs {
			if x.name == y.name && x.kind == y.kind {
				pa, pb = append(pa, x), append(pb, y)
			}
		}
	}
	if len(pa) > 0 {
		i := g.r.intn(len(pa))
		g.feat("same_type_name_in_two_imported_pkgs")
		return pa[i], pb[i]
	}
	if len(as) == 0 || len(bs) == 0 {
		return nil, nil
	}
	return as[g.r.intn(len(as))], bs[g.r.intn(len(bs))]
}

// exoticRefs returns the reference fields of the exotic package shapes for
// the first object of a file (one []string per field).
func (fg *fileGen) exoticRefs(c *fctx, names *fieldNames) [][]string {
	g := fg.g
	r := g.r
	p := fg.pkg
	var out [][]string

	// foo.v1 + foo.v10: a third package uses both by their full names; the
	// later twin uses the earlier one
	if a, b := g.prefixA, g.prefixB; a != nil {
		switch {
		case p != a && p != b && fg.mayRef(a) && fg.mayRef(b):
			if ta, tb := g.commonType(a, b); ta != nil {
				out = append(out, fg.refField(c, names, ta, 2), fg.refField(c, names, tb, 2))
				g.feat("prefix_pkgs_both_imported")
			}
		case p == b && fg.mayRef(a) && r.chance(60):
			if ta := g.anyType(a); ta != nil {
				out = append(out, fg.refField(c, names, ta, 2))
				g.feat("prefix_pkg_imports_its_prefix")
			}
		}
	}
	// extone.v1 + extone.v10 as dependencies (forced only, L22)
	if g.on(XDepPkgPrefix) && len(g.deps) >= 2 && g.deps[1].twin == g.deps[0] {
		if ta, tb := g.commonType(g.deps[0], g.deps[1]); ta != nil {
			out = append(out, fg.refField(c, names, ta, 2), fg.refField(c, names, tb, 2))
			g.feat("dep_prefix_pkgs_both_imported")
		}
	}
	// foo.bar.v1 + baz.bar.v1: short alias and full name
	if a, b := g.sharedA, g.sharedB; a != nil && p == g.sharedImp && fg.mayRef(a) && fg.mayRef(b) {
		if ta, tb := g.commonType(a, b); ta != nil {
			out = append(out, fg.refField(c, names, ta, 1), fg.refField(c, names, tb, 0))
			if r.chance(70) {
				out = append(out, fg.refField(c, names, ta, 2))
			}
			g.feat("shared_short_name_both_imported")
		}
	}
	// deep package graph: use every planned edge, level-skipping ones included
	if p.restrict {
		for _, q := range g.pkgs {
			if !p.allowed[q] || p.imported[q] || !fg.mayRef(q) || len(out) >= 4 {
				continue
			}
			if tq := g.anyType(q); tq != nil {
				out = append(out, fg.refField(c, names, tq, 0))
				if p.order-q.order > 1 {
					g.feat("deep_graph_level_skipping_import")
				} else {
					g.feat("deep_graph_import")
				}
			}
		}
	}
	// the third package that imports both ends of a bare foreign reference
	for _, pair := range g.barePairs {
		from, to := pair[0], pair[1]
		if p == from || p == to || !fg.mayRef(from) || !fg.mayRef(to) || len(out) >= 5 {
			continue
		}
		if ta, tb := g.commonType(from, to); ta != nil {
			out = append(out, fg.refField(c, names, ta, 0), fg.refField(c, names, tb, 0))
			g.feat("bare_foreign_both_pkgs_imported_by_third")
		}
		break
	}
	// a key with a bare foreign reference
	if g.on(XBareForeign) && r.chance(75) {
		ft := ftype{typ: r.pick([]string{"key:id62", "key:uuid", "key"}), hasExt: true, canOptional: true, isKey: true}
		if ft.typ != "key" {
			ft.hasV, ft.anchorsV = true, true
		}
		ft.attrs = []string{"foreign = " + c.bareEntityRef()}
		out = append(out, c.renderProperty("field", g.fieldName(names), ft, true))
	}
	// enum rules on enums defined elsewhere
	if g.on(XEnumRulesXref) {
		var cats [4][]*typeInfo // other j5s file of this package, other local package, hand-written proto, dep
		for _, t := range g.types {
			if t.kind != kEnum || len(t.options) == 0 || !fg.mayRef(t.pkg) {
				continue
			}
			switch {
			case t.origin == oDep:
				cats[3] = append(cats[3], t)
			case t.origin == oProto:
				cats[2] = append(cats[2], t)
			case t.pkg != p:
				cats[1] = append(cats[1], t)
			default:
				cats[0] = append(cats[0], t)
			}
		}
		for _, cat := range cats {
			if len(cat) == 0 || !r.chance(80) {
				continue
			}
			t := cat[r.intn(len(cat))]
			n := r.between(1, len(t.options))
			if n > 3 {
				n = 3
			}
			opts := g.distinct(t.options, n)
			q := make([]string, len(opts))
			for i, o := range opts {
				q[i] = fmt.Sprintf("%q", o)
			}
			attr := "rules.in = [" + strings.Join(q, ", ") + "]"
			if r.chance(40) {
				attr = "rules.notIn = [" + strings.Join(q, ", ") + "]"
				g.feat("enum_rules_not_in")
			} else {
				g.feat("enum_rules_in")
			}
			fg.enumRuleFeat(t)
			out = append(out, fg.refField(c, names, t, 0, attr))
			g.xfeat(XEnumRulesXref)
		}
	}
	return out
}

var simpleOptionTypes = []string{
	"string", "bool", "integer:INT32", "integer:INT64", "integer:UINT32", "integer:UINT64",
	"key:id62", "key:uuid", "key", "date", "decimal", "timestamp", "bytes",
	"float:FLOAT32", "float:FLOAT64", "any",
}

// manyOptions renders n small oneof options (scalars, one or two references).
func (c *fctx) manyOptions(n int, names *fieldNames) []string {
	g := c.g
	r := g.r
	var out []string
	for i := 0; i < n; i++ {
		ft := ftype{typ: r.pick(simpleOptionTypes), hasExt: true}
		if strings.HasPrefix(ft.typ, "key:") {
			ft.hasV, ft.anchorsV = true, true
		}
		if i%4 == 3 {
			kind := []int{kObject, kEnum, kOneof}[r.intn(3)]
			if text, ti := c.fg.pickRef(kind, c.exclude); ti != nil {
				ft.typ = []string{kObject: "object:", kOneof: "oneof:", kEnum: "enum:"}[kind] + text
				if kind == kEnum {
					ft.hasV, ft.anchorsV = true, true
				}
			}
		}
		out = append(out, c.renderProperty("option", g.fieldName(names), ft, false)...)
	}
	g.feat("oneof_very_many_options")
	return out
}

// exoticFields returns the XObjectExotic fields (one []string per field):
// flatten, required enum, required key without format, big inline oneof.
func (fg *fileGen) exoticFields(c *fctx, names *fieldNames) [][]string {
	g := fg.g
	r := g.r
	var out [][]string
	g.xfeat(XObjectExotic)
	if r.chance(80) {
		ft := ftype{hasExt: true, canOptional: true, fixedMarker: true}
		if text, ti := fg.pickRef(kObject, c.exclude); ti != nil && r.chance(70) {
			ft.typ = "object:" + text
			g.feat("object_flatten_ref")
		} else {
			ft.typ = "object"
			ft.block = c.properties("field", r.between(1, 2), 2, newFieldNames(), true)
			g.feat("object_flatten_inline")
		}
		ft.attrs = []string{"flatten = true"}
		if r.chance(35) {
			ft.marker = "! "
			g.feat("object_flatten_required")
		}
		g.feat("object_flatten")
		out = append(out, c.renderProperty("field", g.fieldName(names), ft, false))
	}
	if r.chance(80) {
		ft := ftype{hasExt: true, hasV: true, anchorsV: true, fixedMarker: true, marker: "! "}
		if text, ti := fg.pickRef(kEnum, c.exclude); ti != nil && r.chance(65) {
			ft.typ = "enum:" + text
		} else {
			ft.typ = "enum"
			ft.block = g.enumOptions(r.between(2, 3), nil)
		}
		g.feat("enum_field_required")
		out = append(out, c.renderProperty("field", g.fieldName(names), ft, false))
	}
	if r.chance(80) {
		ft := ftype{typ: "key", hasExt: true, isKey: true, fixedMarker: true, marker: "! "}
		if r.chance(25) {
			ft.typ = "key:informal"
		}
		g.feat("key_field_required_no_rules")
		out = append(out, c.renderProperty("field", g.fieldName(names), ft, false))
	}
	if r.chance(55) {
		ft := ftype{typ: "oneof", hasExt: true, canOptional: true}
		ft.block = c.manyOptions(r.between(6, 10), newFieldNames())
		out = append(out, c.renderProperty("field", g.fieldName(names), ft, true))
	}
	return out
}

func (fg *fileGen) renderOneof(kw, name string) []string {
	g := fg.g
	c := &fctx{g: g, fg: fg, vt: &vtrack{}, exclude: name}
	names := newFieldNames()
	out := []string{kw + " " + name + " {"}
	out = append(out, indent(g.descLines("oneof_desc", 40))...)
	n := g.r.between(2, 4)
	var fields []string
	if g.on(XObjectExotic) && g.r.chance(50) {
		n = g.r.between(6, 10)
		fields = c.manyOptions(n, names)
		g.xfeat(XObjectExotic)
	} else {
		fields = c.properties("option", n, 0, names, false)
	}
	if c.vt.needs && !c.vt.anchors {
		fields = append(fields, c.anchor("option", names)...)
	}
	out = append(out, indent(fields)...)
	out = append(out, "}")
	g.feat("oneof")
	if n >= 3 {
		g.feat("oneof_many_options")
	}
	return out
}

// ---------------------------------------------------------------------------
// references and imports
// ---------------------------------------------------------------------------

// pickRef chooses a type of the kind which may legally be referenced from
// this file (same file, earlier files of this package, earlier packages,
// deps). exclude is the owner whose types must not be used (L9).
func (fg *fileGen) pickRef(kind int, exclude string) (string, *typeInfo) {
	g := fg.g
	var cats [4][]*typeInfo
	for _, t := range fg.planned {
		if t.kind == kind && t.owner != exclude {
			cats[0] = append(cats[0], t)
		}
	}
	for _, t := range g.types {
		if t.kind != kind || !fg.mayRef(t.pkg) {
			continue
		}
		switch {
		case t.pkg == fg.pkg:
			cats[1] = append(cats[1], t)
		case t.pkg.local:
			cats[2] = append(cats[2], t)
		default:
			cats[3] = append(cats[3], t)
		}
	}
	w := []int{30, 28, 30, 20}
	any := false
	for i := range cats {
		if len(cats[i]) == 0 {
			w[i] = 0
		} else {
			any = true
		}
	}
	if !any {
		return "", nil
	}
	cat := cats[g.weighted(w)]
	t := cat[g.r.intn(len(cat))]
	return fg.refText(t), t
}

// mayRef reports whether this file may import package q: the package graph
// may be restricted (deep graphs), and packages that are the target of a bare
// foreign reference stay un-imported.
func (fg *fileGen) mayRef(q *pkgInfo) bool {
	p := fg.pkg
	if q == p || !q.local {
		return true
	}
	if p.restrict && !p.allowed[q] {
		return false
	}
	return !p.avoid[q]
}

// newImport decides how package q is imported into this file and who owns
// which alias. j5Imports() fills a map in file order, so the LAST import
// defining an alias owns it; the generator lets the import that was added
// FIRST own the alias and writes it after the ones that lost.
func (fg *fileGen) newImport(t *typeInfo) *importInfo {
	g := fg.g
	r := g.r
	q := t.pkg
	imp := &importInfo{pkg: q, style: g.weighted([]int{38, 27, 35}), file: t.file}
	if g.sharedImp == fg.pkg && (q == g.sharedA || q == g.sharedB) && r.chance(70) {
		imp.style = 0 // make the clash of the implicit aliases likely
	} else if g.on(XAliasCollision) && len(fg.imports) > 0 && r.chance(50) {
		imp.style = 1
	}
	switch imp.style {
	case 0:
		if owner := fg.aliasOwner[q.short]; owner != nil {
			imp.shortLost = true
			owner.hasLosers = true
			if owner.style == 1 {
				g.feat("import_explicit_alias_shadows_implicit")
				g.xfeat(XAliasCollision)
			} else {
				g.feat("import_short_alias_clash")
			}
		} else {
			fg.aliasOwner[q.short] = imp
		}
	case 1:
		imp.alias = q.alias
		var steal []*importInfo
		if g.on(XAliasCollision) {
			// `import a.v1` + `import b.v1:a`: the explicit alias, written
			// later, takes the name over. Possible while no reference went
			// through the implicit alias yet.
			for _, w := range fg.imports {
				if w.style == 0 && !w.shortLost && !w.shortUsed && !w.hasLosers && w.pkg.short != q.short && fg.aliasOwner[w.pkg.short] == w {
					steal = append(steal, w)
				}
			}
		}
		if len(steal) > 0 && r.chance(75) {
			w := steal[r.intn(len(steal))]
			imp.alias = w.pkg.short
			w.shortLost = true
			imp.hasLosers = true
			fg.aliasOwner[imp.alias] = imp
			fg.imports = append(fg.imports, imp)
			if q.local {
				fg.pkg.imported[q] = true
			}
			g.feat("import_explicit_alias_shadows_implicit")
			g.xfeat(XAliasCollision)
			return imp
		}
		if g.on(XAliasCollision) && r.chance(65) {
			// an explicit alias that equals the implicit alias of another
			// package of the bundle (which may or may not be imported later)
			var cands []string
			for _, list := range [][]*pkgInfo{g.deps, g.pkgs} {
				for _, o := range list {
					if o != q && o != fg.pkg && o.short != q.short && fg.aliasOwner[o.short] == nil {
						cands = append(cands, o.short)
					}
				}
			}
			if len(cands) > 0 {
				imp.alias = r.pick(cands)
				g.feat("import_alias_is_other_pkg_short_name")
				g.xfeat(XAliasCollision)
			}
		}
		if fg.aliasOwner[imp.alias] != nil {
			imp.alias = q.alias
		}
		fg.aliasOwner[imp.alias] = imp
	}
	fg.imports = append(fg.imports, imp)
	if q.local {
		fg.pkg.imported[q] = true
	}
	return imp
}

func (fg *fileGen) refText(t *typeInfo) string {
	g := fg.g
	r := g.r
	if t.owner != t.name {
		g.feat("ref_entity_derived_type")
	}
	if t.pkg == fg.pkg {
		if t.file != fg.out {
			g.feat("cross_file_ref_same_pkg")
			if t.origin == oProto {
				g.feat("j5s_uses_local_proto")
			}
		}
		if r.chance(15) {
			g.feat("ref_qualified_same_pkg")
			return t.pkg.name + "." + t.name
		}
		return t.name
	}
	var imp *importInfo
	for _, i := range fg.imports {
		if i.pkg == t.pkg {
			imp = i
			break
		}
	}
	if imp == nil {
		imp = fg.newImport(t)
	}
	if t.pkg.local {
		g.feat("cross_pkg_ref")
		if fg.pkg.sorted < t.pkg.sorted {
			g.feat("cross_pkg_ref_first_imports_later")
		} else {
			g.feat("cross_pkg_ref_later_imports_first")
		}
		if t.origin == oProto {
			g.feat("j5s_uses_other_pkg_proto")
		}
	} else {
		g.feat("dep_import")
		if t.kind == kEnum {
			g.feat("dep_enum_ref")
		}
	}
	switch imp.style {
	case 0:
		if imp.shortLost {
			// the short alias resolves to another package of this file
			g.feat("ref_full_pkg_alias_shadowed")
			return t.pkg.name + "." + t.name
		}
		short := false
		switch fg.refForm {
		case 1:
			short = true
		case 2:
		default:
			short = r.chance(50)
		}
		if short {
			imp.shortUsed = true
			g.feat("ref_short_pkg")
			if imp.hasLosers {
				g.feat("ref_short_pkg_contested_alias")
			}
			return t.pkg.short + "." + t.name
		}
		return t.pkg.name + "." + t.name
	case 1:
		if imp.alias != t.pkg.alias {
			g.feat("ref_by_colliding_alias")
		}
		return imp.alias + "." + t.name
	default:
		return t.pkg.name + "." + t.name
	}
}
