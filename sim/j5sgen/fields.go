package j5sgen

import (
	"fmt"
	"strings"
)

// vtrack tracks whether a generated proto file region needs the buf/validate
// import (scalar rules, see L2) and whether something in it registers it.
type vtrack struct {
	needs   bool
	anchors bool
}

// fctx is the context for generating properties of one top-level element.
type fctx struct {
	g       *gen
	fg      *fileGen
	vt      *vtrack
	exclude string // owner name whose types must not be referenced (L9)

	noRepeated bool // generating a oneof option: no array / map (L16)
}

// ftype is a generated field type.
type ftype struct {
	typ         string   // text after the name/marker: "string", "array:object:Foo", "object"
	attrs       []string // attribute lines
	block       []string // child lines of inline schemas (already relative-indented)
	itemPrefix  string   // schema oneof name when used as array/map item ("string", "integer" ...)
	hasV        bool     // gets (buf.validate.field)
	hasExt      bool     // gets (j5.ext.v1.field)
	hasList     bool     // gets (j5.list.v1.field)
	needsV      bool
	anchorsV    bool
	canOptional bool
	isKey       bool
	fixedMarker bool   // marker below is used instead of a random one
	marker      string // "", "! " or "? "
}

const (
	tString = iota
	tInteger
	tFloat
	tBool
	tBytes
	tDecimal
	tDate
	tTimestamp
	tKey
	tAny
	tEnumRef
	tObjectRef
	tOneofRef
	tInlineObject
	tInlineOneof
	tInlineEnum
	tArray
	tMap
	tImplicitRef
	numTypes
)

var typeWeights = [numTypes]int{
	tString: 12, tInteger: 13, tFloat: 5, tBool: 5, tBytes: 3, tDecimal: 4, tDate: 4,
	tTimestamp: 4, tKey: 10, tAny: 3, tEnumRef: 9, tObjectRef: 11, tOneofRef: 5,
	tInlineObject: 5, tInlineOneof: 3, tInlineEnum: 4, tArray: 11, tMap: 6, tImplicitRef: 1,
}

func (c *fctx) r() *rng { return c.g.r }

// fieldType generates a random field type. depth limits inline nesting;
// item=true restricts to types usable as array/map items.
func (c *fctx) fieldType(depth int, item bool) ftype {
	w := typeWeights
	if depth >= 2 {
		w[tInlineObject], w[tInlineOneof], w[tArray], w[tMap] = 0, 0, 3, 2
	}
	if item {
		w[tArray], w[tMap], w[tImplicitRef] = 0, 0, 0
	}
	if c.noRepeated {
		w[tArray], w[tMap] = 0, 0
	}
	for {
		t := c.g.weighted(w[:])
		ft, ok := c.typeOf(t, depth, item)
		if ok {
			return ft
		}
		w[t] = 0
	}
}

func (c *fctx) typeOf(t int, depth int, item bool) (ftype, bool) {
	r := c.r()
	g := c.g
	switch t {
	case tString:
		ft := ftype{typ: "string", itemPrefix: "string", hasExt: true, canOptional: true}
		if r.chance(70) {
			lo := r.between(1, 5)
			n := 0
			if r.chance(70) {
				ft.attrs = append(ft.attrs, fmt.Sprintf("rules.minLength = %d", lo))
				n++
			}
			if r.chance(70) {
				ft.attrs = append(ft.attrs, fmt.Sprintf("rules.maxLength = %d", lo+r.between(1, 200)))
				n++
			}
			if r.chance(50) || n == 0 {
				ft.attrs = append(ft.attrs, fmt.Sprintf("rules.pattern = %q", r.pick(patterns)))
				n++
			}
			ft.hasV, ft.needsV = true, true
			g.feat("field_string_rules")
			if n >= 2 {
				g.feat("field_string_rules_multi")
			}
		}
		if !item && r.chance(45) {
			ft.attrs = append(ft.attrs, "listRules.searching.searchable = true")
			if r.chance(40) {
				ft.attrs = append(ft.attrs, fmt.Sprintf("listRules.searching.fieldIdentifier = %q", "tsv_"+strings.ToLower(r.pick(fieldWordsA))))
			}
			ft.hasList = true
			g.feat("field_string_list_rules")
		}
		if !item && r.chance(8) {
			ft.attrs = append(ft.attrs, `format = "email"`)
			g.feat("field_string_format_ignored")
		}
		g.feat("field_string")
		return ft, true

	case tInteger:
		formats := []string{"INT32", "INT64", "UINT32", "UINT64"}
		f := r.pick(formats)
		ft := ftype{typ: "integer:" + f, itemPrefix: "integer", hasExt: true, canOptional: true}
		if r.chance(70) {
			lo := r.between(0, 50)
			hi := lo + r.between(1, 100000)
			n := 0
			if r.chance(75) {
				ft.attrs = append(ft.attrs, fmt.Sprintf("rules.minimum = %d", lo))
				n++
				if r.chance(50) {
					ft.attrs = append(ft.attrs, fmt.Sprintf("rules.exclusiveMinimum = %v", r.chance(60)))
					n++
				}
			}
			if r.chance(75) || n == 0 {
				ft.attrs = append(ft.attrs, fmt.Sprintf("rules.maximum = %d", hi))
				n++
				if r.chance(50) {
					ft.attrs = append(ft.attrs, fmt.Sprintf("rules.exclusiveMaximum = %v", r.chance(60)))
					n++
				}
			}
			if r.chance(10) {
				ft.attrs = append(ft.attrs, fmt.Sprintf("rules.multipleOf = %d", r.between(2, 10)))
			}
			ft.hasV, ft.needsV = true, true
			g.feat("field_integer_rules")
			if n >= 3 {
				g.feat("field_integer_rules_multi")
			}
		}
		if !item && r.chance(50) {
			c.listFilterSort(&ft, true)
		}
		g.feat("field_integer_" + strings.ToLower(f))
		return ft, true

	case tFloat:
		f := r.pick([]string{"FLOAT32", "FLOAT64"})
		ft := ftype{typ: "float:" + f, itemPrefix: "float", hasExt: true, canOptional: true}
		if !item && r.chance(60) {
			c.listFilterSort(&ft, true)
		}
		g.feat("field_float_" + strings.ToLower(f))
		return ft, true

	case tBool:
		ft := ftype{typ: "bool", itemPrefix: "bool", hasExt: true, canOptional: true}
		if r.chance(45) {
			ft.attrs = append(ft.attrs, fmt.Sprintf("rules.const = %v", r.chance(50)))
			ft.hasV, ft.needsV = true, true
			g.feat("field_bool_rules")
		}
		if !item && r.chance(50) {
			ft.attrs = append(ft.attrs, "listRules.filtering.filterable = true")
			ft.hasList = true
		}
		g.feat("field_bool")
		return ft, true

	case tBytes:
		ft := ftype{typ: "bytes", itemPrefix: "bytes", hasExt: true, canOptional: true}
		if r.chance(65) {
			lo := r.between(1, 16)
			if r.chance(70) {
				ft.attrs = append(ft.attrs, fmt.Sprintf("rules.minLength = %d", lo))
			}
			if r.chance(70) || len(ft.attrs) == 0 {
				ft.attrs = append(ft.attrs, fmt.Sprintf("rules.maxLength = %d", lo+r.between(1, 4096)))
			}
			ft.hasV, ft.needsV = true, true
			g.feat("field_bytes_rules")
		}
		g.feat("field_bytes")
		return ft, true

	case tDecimal:
		ft := ftype{typ: "decimal", itemPrefix: "decimal", canOptional: true}
		if !item && r.chance(60) {
			c.listFilterSort(&ft, true)
		}
		g.feat("field_decimal")
		return ft, true

	case tDate:
		ft := ftype{typ: "date", itemPrefix: "date", canOptional: true}
		if !item && r.chance(60) {
			ft.attrs = append(ft.attrs, "listRules.filtering.filterable = true")
			ft.hasList = true
		}
		g.feat("field_date")
		return ft, true

	case tTimestamp:
		ft := ftype{typ: "timestamp", itemPrefix: "timestamp", hasExt: true, canOptional: true}
		if r.chance(35) {
			ft.attrs = append(ft.attrs, fmt.Sprintf("rules.exclusiveMinimum = %v", r.chance(50)))
			if r.chance(50) {
				ft.attrs = append(ft.attrs, fmt.Sprintf("rules.exclusiveMaximum = %v", r.chance(50)))
			}
			ft.hasV, ft.needsV = true, true
			g.feat("field_timestamp_rules")
		}
		if !item && r.chance(40) {
			// silently ignored by the compiler
			c.listFilterSort(&ft, true)
			ft.hasList = false
			g.feat("field_timestamp_list_rules_ignored")
		}
		g.feat("field_timestamp")
		return ft, true

	case tKey:
		return c.keyType(item, false), true

	case tAny:
		ft := ftype{typ: "any", itemPrefix: "any", hasExt: true, canOptional: true}
		if !item && r.chance(60) {
			if r.chance(50) {
				ft.attrs = append(ft.attrs, "onlyDefined = true")
			}
			n := r.between(1, 3)
			var names []string
			for i := 0; i < n; i++ {
				names = append(names, fmt.Sprintf("%q", c.fg.pkg.name+"."+r.pick(typeWordsA)))
			}
			if r.chance(50) {
				ft.attrs = append(ft.attrs, "types = ["+strings.Join(names, ", ")+"]")
			} else {
				for _, n := range names {
					ft.attrs = append(ft.attrs, "types += "+n)
				}
			}
			g.feat("field_any_types")
		}
		g.feat("field_any")
		return ft, true

	case tEnumRef:
		text, ti := c.fg.pickRef(kEnum, c.exclude)
		if ti == nil {
			return ftype{}, false
		}
		ft := ftype{typ: "enum:" + text, itemPrefix: "enum", hasExt: true, hasV: true, anchorsV: true, canOptional: true}
		if len(ti.options) > 0 && r.chance(40) {
			n := r.between(1, len(ti.options))
			if n > 3 {
				n = 3
			}
			opts := c.g.distinct(ti.options, n)
			q := make([]string, len(opts))
			for i, o := range opts {
				q[i] = fmt.Sprintf("%q", o)
			}
			pfx := ""
			if item {
				pfx = "items.enum."
			}
			if r.chance(60) {
				ft.attrs = append(ft.attrs, pfx+"rules.in = ["+strings.Join(q, ", ")+"]")
				g.feat("enum_rules_in")
			} else {
				ft.attrs = append(ft.attrs, pfx+"rules.notIn = ["+strings.Join(q, ", ")+"]")
				g.feat("enum_rules_not_in")
			}
			c.fg.enumRuleFeat(ti)
			if item {
				// already prefixed
				ft.itemPrefix = ""
			}
		}
		if !item && r.chance(45) {
			ft.attrs = append(ft.attrs, "listRules.filtering.filterable = true")
			if len(ti.options) > 0 && r.chance(40) {
				ft.attrs = append(ft.attrs, fmt.Sprintf("listRules.filtering.defaultFilters = [%q]", r.pick(ti.options)))
			}
			ft.hasList = true
			g.feat("field_enum_list_rules")
		}
		g.feat("field_enum_ref")
		return ft, true

	case tObjectRef:
		text, ti := c.fg.pickRef(kObject, c.exclude)
		if ti == nil {
			return ftype{}, false
		}
		ft := ftype{typ: "object:" + text, hasExt: true, canOptional: true}
		if !item {
			if r.chance(15) {
				ft.attrs = append(ft.attrs, "flatten = true")
				g.feat("object_flatten")
			}
			if r.chance(15) {
				ft.attrs = append(ft.attrs, fmt.Sprintf("rules.minProperties = %d", r.between(1, 2)))
				ft.hasV, ft.anchorsV = true, true
				g.feat("object_field_rules")
			}
		}
		g.feat("field_object_ref")
		return ft, true

	case tOneofRef:
		text, ti := c.fg.pickRef(kOneof, c.exclude)
		if ti == nil {
			return ftype{}, false
		}
		ft := ftype{typ: "oneof:" + text, hasExt: true, canOptional: true}
		if !item && r.chance(40) {
			ft.attrs = append(ft.attrs, "listRules.filtering.filterable = true")
			ft.hasList = true
			g.feat("field_oneof_list_rules")
		}
		g.feat("field_oneof_ref")
		return ft, true

	case tImplicitRef:
		names := []string{"j5.list.v1.PageRequest", "j5.list.v1.PageResponse", "j5.list.v1.QueryRequest", "j5.state.v1.StateMetadata", "j5.state.v1.EventMetadata", "j5.messaging.v1.UpsertMetadata", "j5.messaging.v1.RequestMetadata"}
		g.feat("ref_implicit_import")
		return ftype{typ: "object:" + r.pick(names), hasExt: true, canOptional: true}, true

	case tInlineObject:
		ft := ftype{typ: "object", hasExt: true, canOptional: true}
		ft.block = append(ft.block, c.properties("field", g.r.between(1, 2), depth+1, newFieldNames(), true)...)
		g.feat("inline_object")
		if depth >= 1 {
			g.feat("inline_object_deep")
		}
		return ft, true

	case tInlineOneof:
		ft := ftype{typ: "oneof", hasExt: true, canOptional: true}
		ft.block = append(ft.block, c.properties("option", g.r.between(2, 3), depth+1, newFieldNames(), false)...)
		if !item && r.chance(25) {
			ft.attrs = append(ft.attrs, "listRules.filtering.filterable = true")
			ft.hasList = true
		}
		g.feat("inline_oneof")
		return ft, true

	case tInlineEnum:
		ft := ftype{typ: "enum", hasExt: true, hasV: true, anchorsV: true, canOptional: true}
		ft.block = c.g.enumOptions(r.between(2, 3), nil)
		g.feat("inline_enum")
		return ft, true

	case tArray:
		it := c.fieldType(depth, true)
		ft := ftype{typ: "array:" + it.typ, hasExt: true}
		n := 0
		if r.chance(65) {
			lo := r.between(0, 3)
			if r.chance(65) {
				ft.attrs = append(ft.attrs, fmt.Sprintf("rules.minItems = %d", lo))
				n++
			}
			if r.chance(65) {
				ft.attrs = append(ft.attrs, fmt.Sprintf("rules.maxItems = %d", lo+r.between(1, 50)))
				n++
			}
			if r.chance(45) || n == 0 {
				ft.attrs = append(ft.attrs, fmt.Sprintf("rules.uniqueItems = %v", r.chance(80)))
				n++
			}
			g.feat("array_rules")
			if n >= 2 {
				g.feat("array_rules_multi")
			}
		}
		for _, a := range it.attrs {
			if it.itemPrefix == "" || len(it.block) > 0 {
				ft.attrs = append(ft.attrs, a)
			} else {
				ft.attrs = append(ft.attrs, "items."+it.itemPrefix+"."+a)
			}
		}
		ft.block = it.block
		// an array whose items are validated carries a repeated validate rule
		ft.hasV = it.hasV
		ft.anchorsV = it.hasV
		g.feat("field_array")
		g.feat("field_array_of_" + kindWord(it.typ))
		return ft, true

	case tMap:
		it := c.fieldType(depth, true)
		ft := ftype{typ: "map:" + it.typ}
		if r.chance(40) {
			lo := r.between(0, 2)
			ft.attrs = append(ft.attrs, fmt.Sprintf("rules.minPairs = %d", lo))
			if r.chance(50) {
				ft.attrs = append(ft.attrs, fmt.Sprintf("rules.maxPairs = %d", lo+r.between(1, 20)))
			}
			g.feat("map_rules_ignored")
		}
		for _, a := range it.attrs {
			if strings.HasPrefix(a, "items.") {
				// enum item rules were pre-prefixed for arrays
				a = "itemSchema." + strings.TrimPrefix(a, "items.")
				ft.attrs = append(ft.attrs, a)
			} else if it.itemPrefix == "" || len(it.block) > 0 {
				ft.attrs = append(ft.attrs, a)
			} else {
				ft.attrs = append(ft.attrs, "itemSchema."+it.itemPrefix+"."+a)
			}
		}
		ft.block = it.block
		// value options are set on the map entry's value field; scalar rules
		// there still need the validate import
		ft.needsV = it.needsV || it.hasV
		g.feat("field_map")
		g.feat("field_map_of_" + kindWord(it.typ))
		return ft, true
	}
	return ftype{}, false
}

func kindWord(typ string) string {
	if i := strings.Index(typ, ":"); i >= 0 {
		typ = typ[:i]
	}
	return typ
}

func (c *fctx) listFilterSort(ft *ftype, sorting bool) {
	r := c.r()
	n := 0
	if r.chance(65) {
		ft.attrs = append(ft.attrs, "listRules.filtering.filterable = true")
		n++
	}
	if sorting && (r.chance(65) || n == 0) {
		ft.attrs = append(ft.attrs, "listRules.sorting.sortable = true")
		if r.chance(25) {
			ft.attrs = append(ft.attrs, "listRules.sorting.defaultSort = true")
		}
		n++
	}
	if n == 0 {
		ft.attrs = append(ft.attrs, "listRules.filtering.filterable = true")
	}
	ft.hasList = true
}

// keyType generates a key field type. entityKey selects the alias forms
// (primary/tenant) valid for `key` entries of an entity.
func (c *fctx) keyType(item bool, entityKey bool) ftype {
	r := c.r()
	g := c.g
	ft := ftype{itemPrefix: "key", hasExt: true, canOptional: true, isKey: true}
	formats := []int{30, 30, 15, 10, 15} // id62 uuid custom informal none
	if item {
		formats = []int{45, 45, 0, 0, 10}
	}
	f := g.weighted(formats)
	listOK := !item
	switch f {
	case 0:
		ft.typ = "key:id62"
		ft.hasV, ft.anchorsV = true, true
		g.feat("field_key_id62")
	case 1:
		ft.typ = "key:uuid"
		ft.hasV, ft.anchorsV = true, true
		g.feat("field_key_uuid")
	case 2:
		ft.typ = "key:custom"
		ft.attrs = append(ft.attrs, fmt.Sprintf("format.custom.pattern = %q", r.pick(patterns)))
		ft.hasV, ft.anchorsV = true, true
		g.feat("field_key_custom")
	case 3:
		ft.typ = "key:informal"
		ft.hasV, ft.anchorsV = true, true
		listOK = false // L10
		g.feat("field_key_informal")
	default:
		ft.typ = "key"
		g.feat("field_key_natural")
	}
	if !item && !entityKey {
		x := r.intn(100)
		switch {
		case x < 25:
			ft.attrs = append(ft.attrs, "foreign = "+c.entityRef())
			g.feat("field_key_foreign")
		case x < 32:
			ft.attrs = append(ft.attrs, "entity.primaryKey = true")
			ft.hasV, ft.anchorsV = true, true // primary => required
			ft.canOptional = false
			g.feat("field_key_primary_in_object")
		}
		if r.chance(10) {
			ft.attrs = append(ft.attrs, fmt.Sprintf("entity.tenantKey = %q", r.pick(tenantWords)))
			g.feat("field_key_tenant_in_object")
		}
	}
	if listOK && r.chance(45) {
		ft.attrs = append(ft.attrs, "listRules.filtering.filterable = true")
		ft.hasList = true
		g.feat("field_key_list_rules")
	}
	return ft
}

// bareEntityRef returns an entity name WITHOUT a package (`foreign = parent`).
// Nothing resolves foreign references at compile time, so the entity may live
// in a package the referring package does not import: that is preferred, and
// the package is then kept un-imported (pkgInfo.avoid).
func (c *fctx) bareEntityRef() string {
	g := c.g
	r := c.r()
	p := c.fg.pkg
	type cand struct {
		pkg *pkgInfo
		ent string
	}
	var far, near []cand
	for _, q := range g.pkgs {
		for _, e := range q.ents {
			if q != p && !p.imported[q] {
				far = append(far, cand{q, e})
			} else {
				near = append(near, cand{q, e})
			}
		}
	}
	g.xfeat(XBareForeign)
	g.feat("foreign_ref_bare")
	switch {
	case len(far) > 0 && r.chance(75):
		x := far[r.intn(len(far))]
		if !p.avoid[x.pkg] {
			p.avoid[x.pkg] = true
			g.barePairs = append(g.barePairs, [2]*pkgInfo{p, x.pkg})
		}
		g.feat("foreign_ref_bare_to_unimported_pkg")
		return x.ent
	case len(near) > 0 && r.chance(80):
		x := near[r.intn(len(near))]
		if x.pkg == p {
			g.feat("foreign_ref_bare_same_pkg")
		} else {
			g.feat("foreign_ref_bare_imported_pkg")
		}
		return x.ent
	}
	g.feat("foreign_ref_bare_unknown_entity")
	return strings.ToLower(r.pick(typeWordsA))
}

// entityRef returns "pkg.v1.entity_name" of a known or fictional entity.
func (c *fctx) entityRef() string {
	r := c.r()
	if c.g.on(XBareForeign) && r.chance(55) {
		return c.bareEntityRef()
	}
	var cands []string
	for _, p := range c.g.pkgs {
		for _, e := range p.ents {
			cands = append(cands, p.name+"."+e)
		}
	}
	if len(cands) > 0 && r.chance(70) {
		return r.pick(cands)
	}
	return c.fg.pkg.name + "." + strings.ToLower(r.pick(typeWordsA))
}

// properties renders n properties with keyword kw at relative indent 0.
// markers: allow ! and ? markers.
func (c *fctx) properties(kw string, n int, depth int, names *fieldNames, markers bool) []string {
	var out []string
	for i := 0; i < n; i++ {
		name := c.g.fieldName(names)
		// L16: repeated / map members of a oneof are not valid proto.
		// (The flag must be set before generating: a discarded candidate
		// would already have been accounted for in vtrack.)
		saved := c.noRepeated
		c.noRepeated = kw == "option"
		ft := c.fieldType(depth, false)
		c.noRepeated = saved
		out = append(out, c.renderProperty(kw, name, ft, markers)...)
	}
	return out
}

// renderProperty renders one property and does the accounting.
func (c *fctx) renderProperty(kw, name string, ft ftype, markers bool) []string {
	r := c.r()
	g := c.g
	marker := ""
	var extra []string
	isRepeated := strings.HasPrefix(ft.typ, "array:") || strings.HasPrefix(ft.typ, "map:")
	isMap := strings.HasPrefix(ft.typ, "map:")
	if ft.fixedMarker {
		marker = ft.marker
		switch marker {
		case "! ":
			g.feat("field_required")
		case "? ":
			g.feat("field_optional")
		}
	} else if markers {
		x := r.intn(100)
		if isMap && x < 30 {
			x = 99 // L17: required map field panics
		}
		switch {
		case x < 24:
			marker = "! "
			g.feat("field_required")
		case x < 30:
			extra = append(extra, "required = true")
			marker = "!attr"
			g.feat("field_required_attr")
		case x < 44 && ft.canOptional && !isRepeated:
			marker = "? "
			g.feat("field_optional")
		case x < 48 && ft.canOptional && !isRepeated:
			extra = append(extra, "optional = true")
			g.feat("field_optional_attr")
		}
	}
	if strings.HasPrefix(marker, "!") {
		ft.hasV = true
		ft.anchorsV = true
		if marker == "!attr" {
			marker = ""
		}
	}
	if ft.needsV {
		c.vt.needs = true
	}
	if ft.anchorsV {
		c.vt.anchors = true
	}
	if ft.hasV && ft.hasExt && ft.hasList {
		g.feat("field_three_exts")
	}

	head := kw + " " + name + " " + marker + ft.typ
	var body []string
	descMode := r.intn(100)
	if descMode < 22 {
		if g.on(XDescExotic) && r.chance(50) {
			body = append(body, barLines(g.exoticDescBlock())...)
		} else {
			body = append(body, "| "+g.desc())
			if r.chance(30) {
				body = append(body, "| "+g.desc())
				g.feat("desc_multiline")
			}
		}
		g.feat("field_desc_block")
	}
	body = append(body, extra...)
	body = append(body, ft.attrs...)
	if len(ft.block) > 0 {
		if len(body) > 0 {
			body = append(body, "")
		}
		body = append(body, ft.block...)
	}
	if len(body) == 0 {
		if descMode >= 22 && descMode < 40 {
			g.feat("field_desc_inline")
			return []string{head + " | " + g.desc()}
		}
		if r.chance(10) {
			return []string{head + " {" + g.trailingComment(), "}"}
		}
		return []string{head + g.trailingComment()}
	}
	out := []string{head + " {" + g.trailingComment()}
	for _, l := range body {
		if l == "" {
			out = append(out, "")
		} else {
			out = append(out, "  "+l)
		}
	}
	out = append(out, "}")
	return out
}

// anchor returns a property that registers the buf/validate import (L2).
func (c *fctx) anchor(kw string, names *fieldNames) []string {
	c.g.feat("validate_anchor_added")
	c.vt.anchors = true
	name := c.g.fieldName(names)
	typ := c.r().pick([]string{"key:id62", "key:uuid"})
	return []string{kw + " " + name + " " + typ}
}

// enumOptions renders enum option lines; returns lines. If names is non-nil
// the chosen option names are appended.
func (g *gen) enumOptions(n int, names *[]string) []string {
	return g.enumOptionsKW("option", n, names, nil)
}

func (g *gen) enumOptionsKW(kw string, n int, names *[]string, infoKeySet []string) []string {
	r := g.r
	opts := g.distinct(enumOptionWords, n)
	var out []string
	for _, o := range opts {
		if names != nil {
			*names = append(*names, o)
		}
		x := r.intn(100)
		switch {
		case x < 30:
			out = append(out, kw+" "+o)
		case x < 50:
			out = append(out, kw+" "+o+" | "+g.desc())
			g.feat("enum_option_desc")
		default:
			keys := infoKeySet
			if keys == nil {
				keys = g.distinct(infoKeys, r.between(1, 4))
			} else {
				keys = g.distinct(keys, r.between(1, len(keys)))
			}
			out = append(out, kw+" "+o+" {")
			if r.chance(30) {
				out = append(out, "  | "+g.desc())
				g.feat("enum_option_desc")
			} else if r.chance(15) {
				if g.on(XDescExotic) && r.chance(50) {
					// a string running over several lines (backslash-newline)
					out = append(out, "  description = "+bclQuote(strings.Join(g.exoticDescBlock(), "\n")))
					g.feat("desc_multiline_string_attr")
				} else {
					out = append(out, fmt.Sprintf("  description = %q", g.plainDesc()))
				}
				g.feat("enum_option_desc_attr")
			}
			for _, k := range keys {
				out = append(out, fmt.Sprintf("  info.%s = %q", k, strings.ToLower(r.pick(enumOptionWords))))
			}
			out = append(out, "}")
			if len(keys) >= 2 {
				g.feat("enum_info_multi")
			} else {
				g.feat("enum_info_single")
			}
		}
	}
	return out
}

// plainDesc is a description safe inside a quoted string.
func (g *gen) plainDesc() string {
	s := g.desc()
	if rs := []rune(s); len(rs) > 200 {
		s = string(rs[:200]) // whole runes: the text is not ASCII under XDescExotic
	}
	s = strings.ReplaceAll(s, "`", "")
	s = strings.ReplaceAll(s, "*", "")
	return s
}
