package j5sgen

import (
	"strings"
)

// Package pools. "short" names (second to last segment) are unique over both
// pools, no package path is a prefix of another, none collide with built-ins
// (j5/, google/, buf/).
var localPkgPool = []string{
	"alpha.v1", "bravo.v1", "acme.cargo.v1", "acme.depot.v2", "echo.v1",
	"corp.fleet.v1", "golf.v3", "corp.harbor.v1",
}

var depPkgPool = []string{
	"extone.v1", "vendor.exttwo.v1", "extthree.v2", "vendor.extfour.v1",
}

var typeWordsA = []string{
	"Account", "Invoice", "Order", "Ledger", "Widget", "Gadget", "Parcel", "Route",
	"Ticket", "Profile", "Wallet", "Policy", "Claim", "Asset", "Batch", "Carrier",
	"Vessel", "Emitter", "Fixture", "Grant", "Hangar", "Journal", "Kiosk", "Locker",
	"Meter", "Node", "Outlet", "Permit", "Quota", "Roster", "Sensor", "Tariff",
	"Unit", "Vendor", "Yard", "Zone", "Badge", "Crate", "Dock", "Engine",
}

var typeWordsB = []string{
	"Line", "Item", "Detail", "Spec", "Info", "Record", "Ref", "Note", "Meta",
	"Config", "Rule", "Plan", "Step", "Slot", "Tag", "Group", "Batch", "Limit",
	"Scope", "Shape", "Form", "Link", "Mark", "Part",
}

var fieldWordsA = []string{
	"name", "title", "code", "label", "note", "amount", "count", "total", "owner",
	"parent", "source", "target", "region", "weight", "height", "colour", "rank",
	"score", "origin", "serial", "stage", "grade", "phase", "channel",
	"client", "agent", "budget", "margin", "offset",
}

var fieldWordsB = []string{
	"Id", "Ref", "Value", "At", "By", "Kind", "Level", "Mode", "Size", "Text",
	"Flag", "Code", "Index", "Limit", "Note", "Path", "Rate", "Span", "Unit", "Zone",
}

var enumOptionWords = []string{
	"ACTIVE", "PENDING", "CLOSED", "DRAFT", "FAILED", "LARGE", "SMALL", "MEDIUM",
	"RED", "GREEN", "BLUE", "NORTH", "SOUTH", "EAST", "WEST", "OPEN", "HELD",
	"VOID", "PAID", "LATE", "FAST", "SLOW", "HOT", "COLD", "NEW", "OLD", "HIGH",
	"LOW", "INNER", "OUTER", "PRIMARY", "BACKUP",
}

var eventWords = []string{
	"Create", "Update", "Archive", "Approve", "Reject", "Cancel", "Renew",
	"Suspend", "Resume", "Close", "Assign", "Release",
}

var verbWords = []string{
	"Get", "List", "Create", "Update", "Delete", "Fetch", "Search", "Submit",
	"Apply", "Check", "Sync", "Load",
}

var infoKeys = []string{"colour", "final", "weight", "label", "icon", "order", "group", "hint"}

var descWords = []string{
	"the", "a", "primary", "lorem", "ipsum", "dolor", "record", "of", "for",
	"which", "holds", "value", "state", "used", "by", "upstream", "system",
	"and", "never", "empty", "unique", "per", "tenant", "with", "**bold**",
	"`code`", "items", "(optional)", "e.g.", "3rd-party", "when", "set",
}

var patterns = []string{
	"^[a-z]+$", "^[A-Z]{3}$", "^[a-z0-9-]+$", "^[A-Za-z0-9_]{1,32}$", "^[0-9]{4,8}$", "^x-[a-z]+$",
}

var tenantWords = []string{"account", "org", "workspace", "customer"}

var audienceWords = []string{"public", "internal", "partner", "admin"}

// reserve atomically claims all names in the package namespace.
func (p *pkgInfo) reserve(names ...string) bool {
	for _, n := range names {
		if p.names[n] {
			return false
		}
	}
	for _, n := range names {
		p.names[n] = true
	}
	return true
}

func (p *pkgInfo) isFree(names ...string) bool {
	for _, n := range names {
		if p.names[n] {
			return false
		}
	}
	return true
}

// typeName returns a fresh CamelCase name; derived(name) lists all names that
// must be free too (e.g. entity FooKeys, FooState ...).
func (g *gen) typeName(p *pkgInfo, derived func(string) []string) string {
	for attempt := 0; ; attempt++ {
		n := g.r.pick(typeWordsA)
		if g.r.chance(55) || attempt > 6 {
			n += g.r.pick(typeWordsB)
		}
		if attempt > 14 {
			n += g.r.pick(typeWordsB)
		}
		if attempt > 30 {
			n += letters(attempt)
		}
		all := []string{n}
		if derived != nil {
			all = append(all, derived(n)...)
		}
		if p.reserve(all...) {
			return n
		}
	}
}

const kEntity = -1

// typeNameK is typeName, except that a package which mirrors another one
// (twin) prefers the names its twin uses for types of the same kind.
func (g *gen) typeNameK(p *pkgInfo, kind int, derived func(string) []string) string {
	if p.twin == nil || !g.r.chance(75) {
		return g.typeName(p, derived)
	}
	var cands []string
	free := func(n string) bool {
		all := []string{n}
		if derived != nil {
			all = append(all, derived(n)...)
		}
		return p.isFree(all...)
	}
	if kind == kEntity {
		for _, e := range p.twin.ents {
			if n := camel(e); free(n) {
				cands = append(cands, n)
			}
		}
	} else {
		for _, t := range g.types {
			if t.pkg == p.twin && t.kind == kind && t.owner == t.name && free(t.name) {
				cands = append(cands, t.name)
			}
		}
	}
	if len(cands) == 0 {
		return g.typeName(p, derived)
	}
	n := g.r.pick(cands)
	all := []string{n}
	if derived != nil {
		all = append(all, derived(n)...)
	}
	p.reserve(all...)
	g.feat("twin_type_name")
	return n
}

func letters(n int) string {
	s := ""
	for {
		s = string(rune('A'+n%26)) + s
		n /= 26
		if n == 0 {
			break
		}
	}
	return "X" + strings.ToLower(s)
}

// fieldNames hands out unique lowerCamel field names within one container.
type fieldNames struct {
	used map[string]bool
}

func newFieldNames(reserved ...string) *fieldNames {
	fn := &fieldNames{used: map[string]bool{}}
	for _, r := range reservedFieldNames {
		fn.used[r] = true
	}
	for _, r := range reserved {
		fn.used[r] = true
	}
	return fn
}

// names which are injected by the compiler in some containers, or keywords.
var reservedFieldNames = []string{
	"type", "page", "query", "events", "event", "metadata", "keys", "data", "status",
	"upsert", "request", "reply", "entry", "true", "false",
}

func (g *gen) fieldName(fn *fieldNames) string {
	for attempt := 0; ; attempt++ {
		n := g.r.pick(fieldWordsA)
		if g.r.chance(50) || attempt > 4 {
			n += g.r.pick(fieldWordsB)
		}
		if attempt > 12 {
			n += g.r.pick(fieldWordsB)
		}
		if attempt > 30 {
			n += letters(attempt)
		}
		if !fn.used[n] {
			fn.used[n] = true
			return n
		}
	}
}

// distinct picks n distinct words from the pool (n <= len(pool)).
func (g *gen) distinct(pool []string, n int) []string {
	idx := make([]int, len(pool))
	for i := range idx {
		idx[i] = i
	}
	g.r.shuffleInts(idx)
	if n > len(pool) {
		n = len(pool)
	}
	out := make([]string, n)
	for i := 0; i < n; i++ {
		out[i] = pool[idx[i]]
	}
	return out
}

// desc returns a one-line description (unusual content under XDescExotic).
func (g *gen) desc() string {
	if g.on(XDescExotic) && g.r.chance(40) {
		g.xfeat(XDescExotic)
		return g.exoticLine()
	}
	return g.plainWords()
}

func (g *gen) plainWords() string {
	n := g.r.between(2, 7)
	parts := make([]string, n)
	for i := range parts {
		parts[i] = g.r.pick(descWords)
	}
	s := strings.Join(parts, " ")
	return strings.ToUpper(s[:1]) + s[1:]
}

// snake converts lowerCamel / CamelCase (letters only) to snake_case.
func snake(s string) string {
	var sb strings.Builder
	for i, c := range s {
		if c >= 'A' && c <= 'Z' {
			if i > 0 {
				sb.WriteByte('_')
			}
			sb.WriteRune(c - 'A' + 'a')
		} else {
			sb.WriteRune(c)
		}
	}
	return sb.String()
}

func upperSnake(s string) string { return strings.ToUpper(snake(s)) }

func lowerFirst(s string) string { return strings.ToLower(s[:1]) + s[1:] }

// planPackages chooses local and dependency packages and their generation
// (dependency) order.
func (g *gen) planPackages() {
	nLocal := 1
	if g.cfg.MaxPackages > 1 {
		// often 2-3
		w := []int{18, 54, 28}[:g.cfg.MaxPackages]
		nLocal = 1 + g.weighted(w)
		if g.large {
			nLocal = g.cfg.MaxPackages
		}
	}
	nDeps := 0
	if g.cfg.MaxDeps > 0 {
		w := []int{25, 40, 35}[:g.cfg.MaxDeps+1]
		nDeps = g.weighted(w)
		if g.large && nDeps == 0 {
			nDeps = 1
		}
	}

	locals := g.distinct(localPkgPool, nLocal)
	deps := g.distinct(depPkgPool, nDeps)

	// ---- exotic package plans (every draw below happens only when a shape is on) ----
	r := g.r
	type edge struct{ from, to int } // generation indices into locals
	var edges []edge
	if g.on(XDeepGraph) && g.cfg.MaxPackages >= 3 {
		// 4-5 packages in 3-4 levels; imports skip levels:
		//   4: base <- mid <- side <- top, top -> {base, mid}
		//   5: the same plus aux: side -> aux (top reaches aux only through side)
		nLocal = r.between(4, 5)
		locals = g.distinct(localPkgPool, nLocal)
		if nLocal == 4 {
			edges = []edge{{1, 0}, {2, 1}, {3, 0}, {3, 1}, {3, 2}}
			if r.chance(50) {
				edges = append(edges, edge{2, 0})
			}
		} else {
			// 0 base, 1 aux, 2 mid, 3 side, 4 top
			edges = []edge{{2, 0}, {3, 2}, {3, 1}, {4, 0}, {4, 2}, {4, 3}}
			if r.chance(50) {
				edges = append(edges, edge{1, 0})
			}
		}
		g.deep = true
		g.xfeat(XDeepGraph)
	}
	if g.on(XEnumRulesXref) && nDeps == 0 && g.cfg.MaxDeps > 0 && r.chance(40) {
		nDeps = 1
		deps = g.distinct(depPkgPool, nDeps)
	}
	if g.on(XSharedShort) && nLocal == 1 && nDeps < 2 && g.cfg.MaxDeps >= 2 {
		nDeps = 2
		deps = g.distinct(depPkgPool, nDeps)
	}
	if g.on(XSharedShort) && nLocal == 2 && nDeps == 0 && g.cfg.MaxDeps >= 1 && r.chance(50) {
		nDeps = 1
		deps = g.distinct(depPkgPool, nDeps)
	}

	if g.on(XDepPkgPrefix) && nDeps < 2 && g.cfg.MaxDeps >= 2 {
		nDeps = 2
		deps = g.distinct(depPkgPool, nDeps)
	}

	split := func(name string) (prefix, short, version string) {
		parts := strings.Split(name, ".")
		return strings.Join(parts[:len(parts)-2], "."), parts[len(parts)-2], parts[len(parts)-1]
	}
	join := func(prefix, short, version string) string {
		if prefix == "" {
			return short + "." + version
		}
		return prefix + "." + short + "." + version
	}
	taken := func(name string) bool {
		for _, n := range locals {
			if n == name {
				return true
			}
		}
		for _, n := range deps {
			if n == name {
				return true
			}
		}
		return false
	}

	// package names that are string prefixes of each other
	prefA, prefB := -1, -1
	if g.on(XPkgPrefix) && nLocal >= 2 {
		prefA, prefB = 0, 1
		if nLocal >= 4 {
			prefA = r.intn(2)
			prefB = prefA + 1
		}
		pre, short, ver := split(locals[prefA])
		var longer string
		if r.chance(50) {
			longer = join(pre, short, ver+r.pick([]string{"0", "1", "0", "2"})) // foo.v1 / foo.v10
			g.feat("pkg_prefix_version")
		} else {
			longer = join(pre, short+r.pick([]string{"bay", "plus", "x", "s"}), ver) // foo.bar.v1 / foo.barbay.v1
			g.feat("pkg_prefix_segment")
		}
		if !taken(longer) {
			if r.chance(50) {
				locals[prefB] = longer
			} else {
				locals[prefB] = locals[prefA]
				locals[prefA] = longer
			}
			g.xfeat(XPkgPrefix)
		} else {
			prefA, prefB = -1, -1
		}
	}

	// dependency packages extone.v1 + extone.v10 (L22; only when forced)
	depPrefix := false
	if g.on(XDepPkgPrefix) && nDeps >= 2 {
		pre, short, ver := split(deps[0])
		if longer := join(pre, short, ver+r.pick([]string{"0", "1", "2"})); !taken(longer) {
			deps[1] = longer
			depPrefix = true
		}
	}

	// two packages sharing the version-less short name, both imported by the
	// last local package. Candidates: deps and all but the last local.
	shA, shB := -1, -1 // indices into (deps ++ locals)
	if g.on(XSharedShort) {
		nCand := nDeps + nLocal - 1 // in a deep graph top imports base, mid, side (not aux, see below)
		if nCand >= 2 {
			// b (the renamed one) must not belong to the prefix pair
			var bs []int
			for i := 1; i < nCand; i++ {
				li := i - nDeps
				if li >= 0 && (li == prefA || li == prefB) {
					continue
				}
				if g.deep && nLocal == 5 && li == 1 {
					continue // aux is not imported by top
				}
				if depPrefix && i < nDeps {
					continue
				}
				bs = append(bs, i)
			}
			if len(bs) > 0 {
				b := bs[r.intn(len(bs))]
				var as []int
				for i := 0; i < b; i++ {
					if g.deep && nLocal == 5 && i-nDeps == 1 {
						continue
					}
					as = append(as, i)
				}
				if len(as) > 0 {
					a := as[r.intn(len(as))]
					nameOf := func(i int) *string {
						if i < nDeps {
							return &deps[i]
						}
						return &locals[i-nDeps]
					}
					_, shortA, _ := split(*nameOf(a))
					preA, _, _ := split(*nameOf(a))
					_, _, verB := split(*nameOf(b))
					for _, pre := range g.distinct([]string{"zulu", "omni", "vendor", "corp", "acme", "north"}, 6) {
						cand := join(pre, shortA, verB)
						if pre != preA && !taken(cand) {
							*nameOf(b) = cand
							shA, shB = a, b
							break
						}
					}
				}
			}
		}
	}

	mk := func(name string, local bool, order int) *pkgInfo {
		parts := strings.Split(name, ".")
		return &pkgInfo{
			name:     name,
			dir:      strings.Join(parts, "/"),
			short:    parts[len(parts)-2],
			alias:    "x" + parts[len(parts)-2][:3] + letters(order)[1:],
			local:    local,
			order:    order,
			names:    map[string]bool{},
			allowed:  map[*pkgInfo]bool{},
			imported: map[*pkgInfo]bool{},
			avoid:    map[*pkgInfo]bool{},
		}
	}
	for i, d := range deps {
		g.deps = append(g.deps, mk(d, false, i))
	}
	// the order of `locals` (random, from distinct) IS the generation order:
	// locals[0] is the leaf (imported by the others). Because it is
	// independent of the lexical order, the lexically first package is
	// sometimes the importer and sometimes the imported one.
	for i, l := range locals {
		g.pkgs = append(g.pkgs, mk(l, true, len(deps)+i))
	}
	// sorted index
	for _, p := range g.pkgs {
		for _, q := range g.pkgs {
			if q.name < p.name {
				p.sorted++
			}
		}
	}
	if g.deep {
		for _, p := range g.pkgs {
			p.restrict = true
		}
		for _, e := range edges {
			g.pkgs[e.from].allowed[g.pkgs[e.to]] = true
		}
	}
	if depPrefix {
		g.deps[1].twin = g.deps[0]
		g.xfeat(XDepPkgPrefix)
	}
	if prefA >= 0 {
		g.pkgs[prefB].twin = g.pkgs[prefA]
		g.prefixA, g.prefixB = g.pkgs[prefA], g.pkgs[prefB]
		if g.deep && nLocal == 5 && prefA == 0 {
			g.pkgs[3].allowed[g.pkgs[0]] = true // side imports base and aux
		}
	}
	if shA >= 0 {
		at := func(i int) *pkgInfo {
			if i < nDeps {
				return g.deps[i]
			}
			return g.pkgs[i-nDeps]
		}
		g.sharedA, g.sharedB = at(shA), at(shB)
		g.sharedImp = g.pkgs[nLocal-1]
		if g.sharedB.twin == nil {
			g.sharedB.twin = g.sharedA
		}
		g.xfeat(XSharedShort)
	}
	// a package of hand-written protos only / a package that is one entity
	protoOnly := -1
	if g.on(XProtoOnlyPkg) && nLocal >= 2 {
		protoOnly = r.intn(nLocal - 1) // never the last one: somebody may import it
		g.pkgs[protoOnly].protoOnly = true
		g.xfeat(XProtoOnlyPkg)
	}
	if g.on(XEntityOnlyFile) {
		k := r.intn(nLocal)
		if k == protoOnly {
			k = (k + 1) % nLocal
		}
		if k != protoOnly {
			g.pkgs[k].entityOnly = true
			g.xfeat(XEntityOnlyFile)
		}
	}
	if g.on(XFileOptions) {
		// the package whose hand-written protos disagree about go_package
		var eligible []*pkgInfo
		for _, p := range g.pkgs {
			if !p.protoOnly && !p.entityOnly {
				eligible = append(eligible, p)
			}
		}
		if len(eligible) > 0 {
			eligible[r.intn(len(eligible))].twoProtos = true
		}
	}
	switch nLocal {
	case 1:
		g.feat("packages_1")
	case 2:
		g.feat("packages_2")
	case 3:
		g.feat("packages_3")
	case 4:
		g.feat("packages_4")
	default:
		g.feat("packages_5")
	}
	if nDeps > 0 {
		g.feat("dep_packages")
	}
}
