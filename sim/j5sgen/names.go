package j5sgen

import (
	"strings"
)

// Package pools. "short" names (second to last segment) are unique over both
// pools, no package path is a prefix of another, none collide with built-ins
// (j5/, google/, buf/).
var localPkgPool = []string{
	"alpha.v1", "bravo.v1", "acme.cargo.v1", "acme.depot.v2", "echo.v1",
	"corp.fleet.v1", "golf.v3", "corp.harbor.v1",
}

var depPkgPool = []string{
	"extone.v1", "vendor.exttwo.v1", "extthree.v2", "vendor.extfour.v1",
}

var typeWordsA = []string{
	"Account", "Invoice", "Order", "Ledger", "Widget", "Gadget", "Parcel", "Route",
	"Ticket", "Profile", "Wallet", "Policy", "Claim", "Asset", "Batch", "Carrier",
	"Vessel", "Emitter", "Fixture", "Grant", "Hangar", "Journal", "Kiosk", "Locker",
	"Meter", "Node", "Outlet", "Permit", "Quota", "Roster", "Sensor", "Tariff",
	"Unit", "Vendor", "Yard", "Zone", "Badge", "Crate", "Dock", "Engine",
}

var typeWordsB = []string{
	"Line", "Item", "Detail", "Spec", "Info", "Record", "Ref", "Note", "Meta",
	"Config", "Rule", "Plan", "Step", "Slot", "Tag", "Group", "Batch", "Limit",
	"Scope", "Shape", "Form", "Link", "Mark", "Part",
}

var fieldWordsA = []string{
	"name", "title", "code", "label", "note", "amount", "count", "total", "owner",
	"parent", "source", "target", "region", "weight", "height", "colour", "rank",
	"score", "origin", "serial", "stage", "grade", "phase", "channel",
	"client", "agent", "budget", "margin", "offset",
}

var fieldWordsB = []string{
	"Id", "Ref", "Value", "At", "By", "Kind", "Level", "Mode", "Size", "Text",
	"Flag", "Code", "Index", "Limit", "Note", "Path", "Rate", "Span", "Unit", "Zone",
}

var enumOptionWords = []string{
	"ACTIVE", "PENDING", "CLOSED", "DRAFT", "FAILED", "LARGE", "SMALL", "MEDIUM",
	"RED", "GREEN", "BLUE", "NORTH", "SOUTH", "EAST", "WEST", "OPEN", "HELD",
	"VOID", "PAID", "LATE", "FAST", "SLOW", "HOT", "COLD", "NEW", "OLD", "HIGH",
	"LOW", "INNER", "OUTER", "PRIMARY", "BACKUP",
}

var eventWords = []string{
	"Create", "Update", "Archive", "Approve", "Reject", "Cancel", "Renew",
	"Suspend", "Resume", "Close", "Assign", "Release",
}

var verbWords = []string{
	"Get", "List", "Create", "Update", "Delete", "Fetch", "Search", "Submit",
	"Apply", "Check", "Sync", "Load",
}

var infoKeys = []string{"colour", "final", "weight", "label", "icon", "order", "group", "hint"}

var descWords = []string{
	"the", "a", "primary", "lorem", "ipsum", "dolor", "record", "of", "for",
	"which", "holds", "value", "state", "used", "by", "upstream", "system",
	"and", "never", "empty", "unique", "per", "tenant", "with", "**bold**",
	"`code`", "items", "(optional)", "e.g.", "3rd-party", "when", "set",
}

var patterns = []string{
	"^[a-z]+$", "^[A-Z]{3}$", "^[a-z0-9-]+$", "^[A-Za-z0-9_]{1,32}$", "^[0-9]{4,8}$", "^x-[a-z]+$",
}

var tenantWords = []string{"account", "org", "workspace", "customer"}

var audienceWords = []string{"public", "internal", "partner", "admin"}

// reserve atomically claims all names in the package namespace.
func (p *pkgInfo) reserve(names ...string) bool {
	for _, n := range names {
		if p.names[n] {
			return false
		}
	}
	for _, n := range names {
		p.names[n] = true
	}
	return true
}

func (p *pkgInfo) isFree(names ...string) bool {
	for _, n := range names {
		if p.names[n] {
			return false
		}
	}
	return true
}

// typeName returns a fresh CamelCase name; derived(name) lists all names that
// must be free too (e.g. entity FooKeys, FooState ...).
func (g *gen) typeName(p *pkgInfo, derived func(string) []string) string {
	for attempt := 0; ; attempt++ {
		n := g.r.pick(typeWordsA)
		if g.r.chance(55) || attempt > 6 {
			n += g.r.pick(typeWordsB)
		}
		if attempt > 14 {
			n += g.r.pick(typeWordsB)
		}
		if attempt > 30 {
			n += letters(attempt)
		}
		all := []string{n}
		if derived != nil {
			all = append(all, derived(n)...)
		}
		if p.reserve(all...) {
			return n
		}
	}
}

func letters(n int) string {
	s := ""
	for {
		s = string(rune('A'+n%26)) + s
		n /= 26
		if n == 0 {
			break
		}
	}
	return "X" + strings.ToLower(s)
}

// fieldNames hands out unique lowerCamel field names within one container.
type fieldNames struct {
	used map[string]bool
}

func newFieldNames(reserved ...string) *fieldNames {
	fn := &fieldNames{used: map[string]bool{}}
	for _, r := range reservedFieldNames {
		fn.used[r] = true
	}
	for _, r := range reserved {
		fn.used[r] = true
	}
	return fn
}

// names which are injected by the compiler in some containers, or keywords.
var reservedFieldNames = []string{
	"type", "page", "query", "events", "event", "metadata", "keys", "data", "status",
	"upsert", "request", "reply", "entry", "true", "false",
}

func (g *gen) fieldName(fn *fieldNames) string {
	for attempt := 0; ; attempt++ {
		n := g.r.pick(fieldWordsA)
		if g.r.chance(50) || attempt > 4 {
			n += g.r.pick(fieldWordsB)
		}
		if attempt > 12 {
			n += g.r.pick(fieldWordsB)
		}
		if attempt > 30 {
			n += letters(attempt)
		}
		if !fn.used[n] {
			fn.used[n] = true
			return n
		}
	}
}

// distinct picks n distinct words from the pool (n <= len(pool)).
func (g *gen) distinct(pool []string, n int) []string {
	idx := make([]int, len(pool))
	for i := range idx {
		idx[i] = i
	}
	g.r.shuffleInts(idx)
	if n > len(pool) {
		n = len(pool)
	}
	out := make([]string, n)
	for i := 0; i < n; i++ {
		out[i] = pool[idx[i]]
	}
	return out
}

func (g *gen) desc() string {
	n := g.r.between(2, 7)
	parts := make([]string, n)
	for i := range parts {
		parts[i] = g.r.pick(descWords)
	}
	s := strings.Join(parts, " ")
	return strings.ToUpper(s[:1]) + s[1:]
}

// snake converts lowerCamel / CamelCase (letters only) to snake_case.
func snake(s string) string {
	var sb strings.Builder
	for i, c := range s {
		if c >= 'A' && c <= 'Z' {
			if i > 0 {
				sb.WriteByte('_')
			}
			sb.WriteRune(c - 'A' + 'a')
		} else {
			sb.WriteRune(c)
		}
	}
	return sb.String()
}

func upperSnake(s string) string { return strings.ToUpper(snake(s)) }

func lowerFirst(s string) string { return strings.ToLower(s[:1]) + s[1:] }

// planPackages chooses local and dependency packages and their generation
// (dependency) order.
func (g *gen) planPackages() {
	nLocal := 1
	if g.cfg.MaxPackages > 1 {
		// often 2-3
		w := []int{18, 54, 28}[:g.cfg.MaxPackages]
		nLocal = 1 + g.weighted(w)
		if g.large {
			nLocal = g.cfg.MaxPackages
		}
	}
	nDeps := 0
	if g.cfg.MaxDeps > 0 {
		w := []int{25, 40, 35}[:g.cfg.MaxDeps+1]
		nDeps = g.weighted(w)
		if g.large && nDeps == 0 {
			nDeps = 1
		}
	}

	locals := g.distinct(localPkgPool, nLocal)
	deps := g.distinct(depPkgPool, nDeps)

	mk := func(name string, local bool, order int) *pkgInfo {
		parts := strings.Split(name, ".")
		return &pkgInfo{
			name:  name,
			dir:   strings.Join(parts, "/"),
			short: parts[len(parts)-2],
			alias: "x" + parts[len(parts)-2][:3] + letters(order)[1:],
			local: local,
			order: order,
			names: map[string]bool{},
		}
	}
	for i, d := range deps {
		g.deps = append(g.deps, mk(d, false, i))
	}
	// the order of `locals` (random, from distinct) IS the generation order:
	// locals[0] is the leaf (imported by the others). Because it is
	// independent of the lexical order, the lexically first package is
	// sometimes the importer and sometimes the imported one.
	for i, l := range locals {
		g.pkgs = append(g.pkgs, mk(l, true, len(deps)+i))
	}
	// sorted index
	for _, p := range g.pkgs {
		for _, q := range g.pkgs {
			if q.name < p.name {
				p.sorted++
			}
		}
	}
	switch nLocal {
	case 1:
		g.feat("packages_1")
	case 2:
		g.feat("packages_2")
	default:
		g.feat("packages_3")
	}
	if nDeps > 0 {
		g.feat("dep_packages")
	}
}
