package simrt

import "sync"

// Condition variables under the simulator. simrewrite turns c.Wait(), c.Signal() and
// c.Broadcast() of the scheduled packages into the functions below. The waiters are kept by the
// simulator (a task waiting for real inside sync.Cond would hold the baton for ever): Wait
// registers the task with a ticket, releases c.L, hands the baton on and, once signalled, takes
// c.L again through the intercepted lock path; Signal wakes the waiter with the smallest ticket
// (the runtime's notify list is first-come first-served too), Broadcast all of them. A wake-up that
// never comes leaves every task waiting: reported as deadlock, with an exactly replayable schedule.

//go:norace
func (s *Sim) condEnqueue(t *Task, c *sync.Cond) {
	s.condSeq++
	t.condWait = c
	t.condTicket = s.condSeq
	s.Stats.CondWaits++
}

//go:norace
func (s *Sim) condWake(c *sync.Cond, all bool) {
	for {
		var first *Task
		for _, o := range s.tasks {
			if o.condWait == c && (first == nil || o.condTicket < first.condTicket) {
				first = o
			}
		}
		if first == nil {
			return
		}
		first.condWait = nil
		if !all {
			return
		}
	}
}

func relock(l sync.Locker, site string) {
	switch m := l.(type) {
	case *sync.Mutex:
		Lock(m.TryLock, m.Lock, site)
	case *sync.RWMutex:
		LockW(m, m.TryLock, m.Lock, site)
	default:
		l.Lock() // an unknown Locker: if it blocks, the watchdog notices (native fallback)
	}
}

// CondWait replaces (*sync.Cond).Wait.
func CondWait(c *sync.Cond, site string) {
	s, t := current()
	if s == nil || nativeMode {
		c.Wait()
		return
	}
	s.condEnqueue(t, c)
	c.L.Unlock()
	bumpEpoch(s)
	s.step(t, site, EvYield, false) // not a candidate while waiting: the baton goes elsewhere, or the run is a deadlock
	relock(c.L, site)
}

// CondSignal replaces (*sync.Cond).Signal.
func CondSignal(c *sync.Cond, site string) {
	s, t := current()
	if s == nil || nativeMode {
		c.Signal()
		return
	}
	s.condWake(c, false)
	s.step(t, site, EvYield, false)
}

// CondBroadcast replaces (*sync.Cond).Broadcast.
func CondBroadcast(c *sync.Cond, site string) {
	s, t := current()
	if s == nil || nativeMode {
		c.Broadcast()
		return
	}
	s.condWake(c, true)
	s.step(t, site, EvYield, false)
}
