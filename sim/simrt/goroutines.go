package simrt

import (
	"sync"
	"syscall"
)

// Goroutines of the code under test, and the WaitGroups they are waited for with, under the
// simulator. simrewrite turns `go func() { ... }()` of the scheduled packages into Go(func, site)
// and wg.Add / Done / Wait into WgAdd / WgDone / WgWait. The new goroutine is one more task: it is
// started at the `go` statement (the happens-before edge a real one has), parked, runnable at once,
// and runs when the seeded scheduler says so. WaitGroup counters are mirrored sim-side so that a
// waiting task gives the baton away instead of sleeping with it; the real WaitGroup is operated as
// well, which gives the race detector the Done -> Wait edges of the real program. (Other forms of
// the go statement, channels and select stay unmodelled: native fallback.)

type wgState struct {
	wg *sync.WaitGroup
	n  int
}

// newSlot returns the index for one more task: a fresh one while there is room, else the slot of
// a goroutine or timer task that has finished (its pipe is closed; the new task continues the old
// one's yield count, so that (task, yield) pairs of a recorded schedule stay unique). -1: none.
//
//go:norace
func (s *Sim) newSlot() (idx int, yields int) {
	if len(s.tasks) < cap(s.tasks) {
		return len(s.tasks), 0
	}
	for i, o := range s.tasks {
		if o.timer && o.state == stDone && !o.reused {
			o.reused = true
			syscall.Close(o.rfd)
			syscall.Close(o.wfd)
			return i, o.localYield
		}
	}
	return -1, 0
}

//go:norace
func (s *Sim) place(idx int, t *Task) {
	if idx == len(s.tasks) {
		s.tasks = append(s.tasks, t) // within capacity
	} else {
		s.tasks[idx] = t
	}
}

//go:norace
func (s *Sim) addGoTask(f func(), site string) *Task {
	idx, yields := s.newSlot()
	if idx < 0 {
		return nil
	}
	var p [2]int
	if err := syscall.Pipe(p[:]); err != nil {
		return nil
	}
	t := &Task{ID: idx, Name: "go@" + site, rfd: p[0], wfd: p[1], fn: f, state: stRunnable, timer: true, localYield: yields}
	t.prio = s.rng.Intn(len(s.tasks) + s.pol.PCTDepth + 2)
	s.place(idx, t)
	s.Stats.GoTasks++
	return t
}

// overflow abandons the simulated run: the harness repeats the workload with ordinary goroutines.
//
//go:norace
func (s *Sim) overflow(t *Task, why string) {
	s.setNativeBlocked(why)
	rawWrite(s.mainW)
	rawRead(t.rfd) // park for good
}

// Go replaces `go func() { ... }()`.
func Go(f func(), site string) {
	s, cur := current()
	if s == nil || cur == nil || nativeMode {
		go f()
		return
	}
	t := s.addGoTask(f, site)
	if t == nil {
		s.overflow(cur, "more goroutines than the simulator tracks (started at "+site+")")
		return
	}
	s.startTimerTask(t)
	Yield(site)
}

//go:norace
func (s *Sim) wgFind(wg *sync.WaitGroup, create bool) *wgState {
	for i := 0; i < s.nWgs; i++ {
		if s.wgs[i].wg == wg {
			return &s.wgs[i]
		}
	}
	if !create || s.nWgs >= len(s.wgs) {
		return nil
	}
	s.wgs[s.nWgs] = wgState{wg: wg}
	s.nWgs++
	return &s.wgs[s.nWgs-1]
}

//go:norace
func (s *Sim) wgAdd(wg *sync.WaitGroup, n int) {
	st := s.wgFind(wg, true)
	if st == nil {
		return
	}
	st.n += n
	if st.n <= 0 {
		for _, o := range s.tasks {
			if o.wgWait == wg {
				o.wgWait = nil
			}
		}
		// free the registry entry: the next Add of the same WaitGroup makes a new one
		last := s.nWgs - 1
		*st = s.wgs[last]
		s.wgs[last] = wgState{}
		s.nWgs = last
	}
}

//go:norace
func (s *Sim) wgMustWait(t *Task, wg *sync.WaitGroup) bool {
	st := s.wgFind(wg, false)
	if st == nil || st.n <= 0 {
		return false
	}
	t.wgWait = wg
	s.Stats.WgWaits++
	return true
}

// WgAdd replaces (*sync.WaitGroup).Add.
func WgAdd(wg *sync.WaitGroup, n int) {
	wg.Add(n)
	if s, t := current(); s != nil && t != nil && !nativeMode {
		s.wgAdd(wg, n)
	}
}

// WgDone replaces (*sync.WaitGroup).Done.
func WgDone(wg *sync.WaitGroup) {
	wg.Done()
	if s, t := current(); s != nil && t != nil && !nativeMode {
		s.wgAdd(wg, -1)
	}
}

// WgWait replaces (*sync.WaitGroup).Wait.
func WgWait(wg *sync.WaitGroup, site string) {
	s, t := current()
	if s == nil || t == nil || nativeMode {
		wg.Wait()
		return
	}
	if s.wgMustWait(t, wg) {
		s.step(t, site, EvYield, false) // not a candidate until the counter reaches zero
	}
	wg.Wait() // the real counter is zero as well: returns at once, and orders the workers' writes before us
}
