package simrt

import "time"

// The simulated clock. simrewrite routes time.Now / time.Since / time.Until /
// time.Sleep of the instrumented packages here, so that code under test that
// consults the clock (a cache with expiry, a timestamp in generated output)
// sees a clock the simulator owns: it starts at a seeded instant, advances a
// little on every reading and every yield, and makes seeded jumps ("clock
// skew and jumps"). Outside a simulation (and in native fallback mode) the
// real clock is used. No code in /repo's instrumented packages reads the clock
// today; the seam exists for changed code.

var clockOn bool
var clockNow time.Time
var clockRng *Rng
var clockReads int

// StartClock switches the simulated clock on. Must be called while no task runs.
func StartClock(seed uint64) {
	r := NewRng(Derive(seed, 0xc10c))
	// some instant in 2001..2033, so that two executions practically never share a date
	clockNow = time.Unix(1_000_000_000+int64(r.Intn(1_000_000_000)), int64(r.Intn(1_000_000_000))).UTC()
	clockRng = r
	clockReads = 0
	clockOn = true
}

// StopClock switches back to the real clock.
func StopClock() { clockOn = false }

// ClockReads reports how often the simulated clock was read since StartClock.
func ClockReads() int { return clockReads }

//go:norace
func advanceClock(base time.Duration) {
	d := base
	switch x := clockRng.Intn(1000); {
	case x < 5:
		d += time.Hour * time.Duration(1+clockRng.Intn(48)) // jump
	case x < 25:
		d += time.Second * time.Duration(1+clockRng.Intn(120))
	case x < 100:
		d += time.Millisecond * time.Duration(1+clockRng.Intn(50))
	}
	clockNow = clockNow.Add(d)
}

//go:norace
func clockActive() bool { return clockOn && !nativeMode }

// Now replaces time.Now.
//
//go:norace
func Now() time.Time {
	if !clockActive() {
		return time.Now()
	}
	clockReads++
	advanceClock(37 * time.Microsecond)
	return clockNow
}

// Since replaces time.Since.
func Since(t time.Time) time.Duration { return Now().Sub(t) }

// Until replaces time.Until.
func Until(t time.Time) time.Duration { return t.Sub(Now()) }

// Sleep replaces time.Sleep: simulated time passes, a yield point is offered, nobody waits.
func Sleep(d time.Duration) {
	if !clockActive() {
		time.Sleep(d)
		return
	}
	sleepAdvance(d)
	Yield("time.Sleep")
}

//go:norace
func sleepAdvance(d time.Duration) {
	if d > 0 {
		clockNow = clockNow.Add(d)
	}
}
