package simrt

// Rng is a splitmix64 generator: tiny, stable across Go releases, and cheap
// to derive independent streams from (seed, a, b, ...) tuples.
type Rng struct{ s uint64 }

func mix(z uint64) uint64 {
	z += 0x9e3779b97f4a7c15
	z = (z ^ (z >> 30)) * 0xbf58476d1ce4e5b9
	z = (z ^ (z >> 27)) * 0x94d049bb133111eb
	return z ^ (z >> 31)
}

// Derive returns a seed that is a pure function of the arguments.
//
//go:norace
func Derive(seed uint64, parts ...uint64) uint64 {
	h := mix(seed)
	for _, p := range parts {
		h = mix(h ^ mix(p+0x632be59bd9b4e019))
	}
	return h
}

// HashString is FNV-1a 64.
//
//go:norace
func HashString(s string) uint64 {
	h := uint64(14695981039346656037)
	for i := 0; i < len(s); i++ {
		h ^= uint64(s[i])
		h *= 1099511628211
	}
	return h
}

func NewRng(seed uint64) *Rng { return &Rng{s: seed} }

//go:norace
func (r *Rng) Uint64() uint64 {
	r.s += 0x9e3779b97f4a7c15
	z := r.s
	z = (z ^ (z >> 30)) * 0xbf58476d1ce4e5b9
	z = (z ^ (z >> 27)) * 0x94d049bb133111eb
	return z ^ (z >> 31)
}

// Intn returns a value in [0,n). n must be > 0.
//
//go:norace
func (r *Rng) Intn(n int) int {
	if n <= 0 {
		panic("simrt: Intn of non-positive")
	}
	return int(r.Uint64() % uint64(n))
}

//go:norace
func (r *Rng) Float64() float64 {
	return float64(r.Uint64()>>11) / (1 << 53)
}

// Bool returns true with probability p.
//
//go:norace
func (r *Rng) Bool(p float64) bool { return r.Float64() < p }

// Perm returns a uniformly random permutation of [0,n).
//
//go:norace
func (r *Rng) Perm(n int) []int {
	p := make([]int, n)
	for i := range p {
		p[i] = i
	}
	for i := n - 1; i > 0; i-- {
		j := r.Intn(i + 1)
		p[i], p[j] = p[j], p[i]
	}
	return p
}

// IsIdentity reports whether p is nil or the identity permutation.
//
//go:norace
func IsIdentity(p []int) bool {
	for i, v := range p {
		if i != v {
			return false
		}
	}
	return true
}
