package simrt

import (
	"syscall"
	"time"
)

// Callback timers under the simulated clock. simrewrite turns time.AfterFunc(d, f) of the
// scheduled packages into AfterFunc(d, f, site) and (*time.Timer).Stop / Reset into TimerStop /
// TimerReset. Inside a simulated run the timer's deadline is a point of the SIMULATED clock and its
// callback is one more task: when the clock passes the deadline (it advances at every yield and
// makes seeded jumps of up to two days, so a five-minute timeout is a matter of a few hundred
// yields) the task becomes runnable and the seeded scheduler decides when it runs - in the middle of
// whatever the other tasks are doing. When nothing else can run, the clock moves to the next
// deadline (discrete-event time). The handle returned to the code under test is a real *time.Timer
// that never fires by itself. Outside a simulated run (and in native fallback) these are the real
// functions.

//go:norace
func (s *Sim) addTimer(h *time.Timer, d time.Duration, f func(), site string) *Task {
	if s.Stats.TimersArmed >= 200 {
		return nil
	}
	idx, yields := s.newSlot()
	if idx < 0 {
		return nil
	}
	var p [2]int
	if err := syscall.Pipe(p[:]); err != nil {
		return nil
	}
	t := &Task{ID: idx, Name: "timer@" + site, rfd: p[0], wfd: p[1], fn: f,
		state: stTimerWait, timer: true, handle: h, deadline: clockNow.Add(d), localYield: yields}
	// PCT: somewhere among the others, decided by the run's own PRNG
	t.prio = s.rng.Intn(len(s.tasks) + s.pol.PCTDepth + 2)
	s.place(idx, t)
	s.Stats.TimersArmed++
	return t
}

//go:norace
func (s *Sim) timerCancelled(t *Task) bool { return t.cancelled }

//go:norace
func (s *Sim) fireDueTimers() {
	for _, o := range s.tasks {
		if o.state == stTimerWait && !o.cancelled && !o.deadline.After(clockNow) {
			o.state = stRunnable
			s.Stats.TimersFired++
			s.logEvent(o, EvTimerFire, "")
		}
	}
}

// jumpToNextTimer moves the clock to the earliest pending deadline and fires that timer.
//
//go:norace
func (s *Sim) jumpToNextTimer() bool {
	if !clockOn || s.Stats.TimerJumps >= 8 {
		return false
	}
	var next *Task
	for _, o := range s.tasks {
		if o.state == stTimerWait && !o.cancelled && (next == nil || o.deadline.Before(next.deadline)) {
			next = o
		}
	}
	if next == nil {
		return false
	}
	if next.deadline.After(clockNow) {
		clockNow = next.deadline
	}
	s.Stats.TimerJumps++
	s.fireDueTimers()
	return true
}

//go:norace
func (s *Sim) releaseWaitingTimers() {
	for _, o := range s.tasks {
		if o.state == stTimerWait {
			o.cancelled = true
			o.state = stDone
			rawWrite(o.wfd)
		}
	}
}

//go:norace
func (s *Sim) findTimer(h *time.Timer) *Task {
	var found *Task
	for _, o := range s.tasks {
		if o.timer && o.handle == h {
			found = o // the latest incarnation
		}
	}
	return found
}

//go:norace
func (s *Sim) stopTimer(t *Task) bool {
	if t.state == stTimerWait && !t.cancelled {
		t.cancelled = true
		return true
	}
	return false
}

// rearm: true if the waiting incarnation could be given a new deadline.
//
//go:norace
func (s *Sim) rearmTimer(t *Task, d time.Duration) (wasActive, reused bool) {
	if t.state == stTimerWait {
		wasActive = !t.cancelled
		t.cancelled = false
		t.deadline = clockNow.Add(d)
		return wasActive, true
	}
	return false, false
}

//go:norace
func timerFn(t *Task) func() { return t.fn }

func (s *Sim) startTimerTask(t *Task) {
	s.wg.Add(1)
	go func() {
		defer s.wg.Done()
		rawRead(t.rfd)
		if s.timerCancelled(t) {
			return
		}
		s.taskMain(t)
	}()
}

// AfterFunc replaces time.AfterFunc in the scheduled packages.
func AfterFunc(d time.Duration, f func(), site string) *time.Timer {
	s, cur := current()
	if s == nil || cur == nil || nativeMode || !clockActive() {
		return time.AfterFunc(d, f)
	}
	h := time.AfterFunc(1<<62, func() {}) // a handle; it never fires by itself
	t := s.addTimer(h, d, f, site)
	if t == nil {
		h.Stop()
		return time.AfterFunc(d, f) // more timers than the simulator tracks: a real one
	}
	s.startTimerTask(t)
	Yield(site) // arming a timer is a scheduling point
	return h
}

// TimerStop replaces (*time.Timer).Stop.
func TimerStop(h *time.Timer) bool {
	s, cur := current()
	if s == nil || cur == nil || nativeMode {
		return h.Stop()
	}
	t := s.findTimer(h)
	if t == nil {
		return h.Stop()
	}
	return s.stopTimer(t)
}

// TimerReset replaces (*time.Timer).Reset.
func TimerReset(h *time.Timer, d time.Duration) bool {
	s, cur := current()
	if s == nil || cur == nil || nativeMode {
		return h.Reset(d)
	}
	t := s.findTimer(h)
	if t == nil {
		return h.Reset(d)
	}
	wasActive, reused := s.rearmTimer(t, d)
	if reused {
		return wasActive
	}
	// the callback ran (or is running): a new incarnation under the same handle
	nt := s.addTimer(h, d, timerFn(t), "reset")
	if nt != nil {
		s.startTimerTask(nt)
	}
	return false
}
