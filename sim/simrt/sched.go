package simrt

import (
	"fmt"
	"os"
	"runtime"
	"strings"
	"sync"
	"syscall"
	"time"
	"unsafe"
)

// The scheduler runs every simulated task on a real goroutine but lets exactly
// one of them execute at any instant ("baton passing"). A task that gives up
// the baton parks in a raw read(2) on its own pipe; whoever hands it the baton
// issues a raw write(2). Both are made with syscall.Syscall from //go:norace
// functions, so the hand-off is INVISIBLE to the race detector: its
// happens-before graph contains only the synchronisation that the code under
// test performs itself. A data race between two tasks is therefore reported
// even when the simulator runs them strictly one after the other.
//
// All scheduler state is touched only by the goroutine holding the baton, from
// //go:norace functions.

type TaskState int

// maxTasks bounds tasks plus callback timers of one run.
const maxTasks = 48

const (
	stRunnable TaskState = iota
	stDone
	stTimerWait // a callback timer that has not fired: not schedulable, not part of a deadlock
)

type Task struct {
	ID   int
	Name string

	rfd, wfd int

	state        TaskState
	blocked      bool   // last lock attempt failed
	blockedEpoch uint64 // unlockEpoch at the time of that attempt
	stalled      bool
	stallUntil   int // ops completed (globally) at which the stall ends

	localYield int // yields executed by this task
	opIndex    int // operation the task is in (harness-maintained)
	opYields   int // yields within the current op
	prio       int // PCT priority (higher runs first)
	goid       uint64

	curSite string
	inSites map[string]int // diagnostic only

	permCalls int // Perm calls within the current op (order.go stream)

	fn func()

	// wait groups (goroutines.go): set while the task waits for the counter to reach zero
	wgWait *sync.WaitGroup
	// condition variables (cond.go): set while the task waits for a Signal/Broadcast
	condWait   *sync.Cond
	condTicket uint64

	// callback timers (timers.go) and goroutines of the code under test (goroutines.go)
	reused    bool // finished, and its slot now belongs to a later task
	timer     bool
	handle    *time.Timer
	deadline  time.Time
	cancelled bool
}

// Switch is one scheduling decision that differs from "keep running the
// current task": when task From reached its At-th yield the baton went to To.
type Switch struct {
	From int `json:"from"`
	At   int `json:"at"`
	To   int `json:"to"`
}

type Event struct {
	Task int32
	Kind uint8
	Site string
}

const (
	EvYield uint8 = iota
	EvBlocked
	EvSwitch
	EvOpDone
	EvFinish
	EvStall
	EvUnstall
	EvTimerFire
)

type Policy struct {
	Mode       string  `json:"mode"` // "random" | "pct" | "serial" | "forced"
	SwitchProb float64 `json:"switch_prob,omitempty"`
	PCTDepth   int     `json:"pct_depth,omitempty"`
	// PCTPoints, if set, are the yield numbers of the priority change points (instead of PCTDepth
	// random ones), and tasks start with priorities in task order (task 0 highest): a preemption
	// point placed on purpose, e.g. swept across processes.
	PCTPoints []int    `json:"pct_points,omitempty"`
	EstYields int      `json:"est_yields,omitempty"`
	StallProb float64  `json:"stall_prob,omitempty"` // per-yield probability to stall inside StallSites
	StallAny  float64  `json:"stall_any,omitempty"`  // per-yield probability to stall anywhere
	MaxYields int      `json:"max_yields,omitempty"`
	MaxStalls int      `json:"max_stalls,omitempty"` // stall faults per run (default 2)
	Forced    []Switch `json:"forced,omitempty"`
	// SerialOrder: for mode "serial": task ids in the order they run to completion.
	SerialOrder []int `json:"serial_order,omitempty"`
}

type Stats struct {
	Yields         int
	Switches       int
	BlockedYields  int
	LockContention int
	Stalls         int
	StallsInBuild  int
	ForeignYields  int
	SwitchInBuild  int // switch away from a task parked inside a StallSites site
	OverlapBuild   int // a task entered a StallSites site while another task was parked inside one
	OnceWaits      int
	CondWaits      int
	GoTasks        int // goroutines started by the code under test that run as scheduled tasks
	WgWaits        int
	TimersArmed    int
	TimersFired    int
	TimerJumps     int // the clock was moved to the next timer deadline because nothing else could run
	WriterQueued   int // a write Lock() on an RWMutex had to queue (new readers then queue behind it)
	MaxOpYields    int
}

type Sim struct {
	tasks []*Task
	cur   *Task
	rng   *Rng
	pol   Policy

	forced map[[2]int]int

	unlockEpoch  uint64
	opsCompleted int
	nYield       int

	pctPoints map[int]bool

	mainR, mainW int

	Switches   []Switch
	Events     []Event
	KeepEvents bool
	Sig        uint64

	Stats Stats
	// SiteBits: approximate set of yield sites executed (bit = FNV(site) mod 4096)
	SiteBits [64]uint64

	Deadlock bool
	Capped   bool
	// NativeBlocked: the task holding the baton sits in a blocking primitive the simulator does not
	// model (one inside a dependency, say) and no other task can ever release it because they are
	// all parked. Not a verdict about the code: the harness repeats the workload with ordinary
	// goroutines. BlockedInfo is the goroutine state and innermost frames.
	NativeBlocked bool
	BlockedInfo   string
	StuckSite     string

	// InBuild classifies a yield site as "inside the schema build path"
	// (used for the stall-in-build fault and the overlap probes).
	InBuild func(site string) bool

	// NOTE: no Go maps, append-with-shift or copy() in state that tasks mutate: the runtime's map,
	// growslice and slicecopy code is race-annotated even when called from //go:norace functions,
	// and would report the simulator's own bookkeeping. Fixed arrays and plain stores only.
	onces  [64]*onceState
	nOnces int
	// rwWaiting: (RWMutex identity, task) pairs whose write Lock() is queued. Go's RWMutex blocks new
	// readers behind a queued writer; spinning on TryLock alone would never model that.
	rwWaiting [64]rwWait
	nRW       int
	condSeq   uint64
	wgs       [32]wgState
	nWgs      int

	checkGoid bool
	wg        sync.WaitGroup
	finished  bool
}

type onceState struct {
	once    *sync.Once
	running *Task
	done    bool
}

type rwWait struct {
	key  any
	task *Task
}

var active *Sim

// nativeMode: the simulator does not schedule at all (the harness runs tasks as ordinary
// goroutines because the code under test uses synchronisation the simulator cannot model:
// channels, select, sync.Cond, WaitGroup, goroutines of its own). Yield points then merely
// invite the Go scheduler to switch.
var nativeMode bool

// SetNativeMode must be called while no task is running.
func SetNativeMode(on bool) { nativeMode = on }

//go:norace
func getActive() *Sim { return active }

//go:norace
func setActive(s *Sim) { active = s }

func NewSim(seed uint64, pol Policy) *Sim {
	s := &Sim{rng: NewRng(seed), pol: pol}
	s.tasks = make([]*Task, 0, maxTasks) // never grows: timers add tasks from //go:norace code
	if s.pol.MaxYields == 0 {
		s.pol.MaxYields = 200000
	}
	s.forced = map[[2]int]int{}
	for _, sw := range pol.Forced {
		s.forced[[2]int{sw.From, sw.At}] = sw.To
	}
	var p [2]int
	if err := syscall.Pipe(p[:]); err != nil {
		panic(err)
	}
	s.mainR, s.mainW = p[0], p[1]
	s.Sig = 14695981039346656037
	return s
}

// SetCheckGoid makes every Yield verify that the caller is the task holding
// the baton (needed only when instrumented code starts goroutines itself).
func (s *Sim) SetCheckGoid(b bool) { s.checkGoid = b }

func (s *Sim) Spawn(name string, fn func()) *Task {
	var p [2]int
	if err := syscall.Pipe(p[:]); err != nil {
		panic(err)
	}
	t := &Task{ID: len(s.tasks), Name: name, rfd: p[0], wfd: p[1], fn: fn}
	s.tasks = append(s.tasks, t)
	return t
}

//go:norace
func rawRead(fd int) {
	var b [1]byte
	for {
		n, _, e := syscall.Syscall(syscall.SYS_READ, uintptr(fd), uintptr(unsafe.Pointer(&b[0])), 1)
		if n == 1 {
			return
		}
		if e == syscall.EINTR || e == syscall.EAGAIN {
			continue
		}
		os.Stderr.WriteString("simrt: pipe read failed\n")
		os.Exit(3)
	}
}

//go:norace
func rawWrite(fd int) {
	var b [1]byte
	for {
		n, _, e := syscall.Syscall(syscall.SYS_WRITE, uintptr(fd), uintptr(unsafe.Pointer(&b[0])), 1)
		if n == 1 {
			return
		}
		if e == syscall.EINTR || e == syscall.EAGAIN {
			continue
		}
		os.Stderr.WriteString("simrt: pipe write failed\n")
		os.Exit(3)
	}
}

//go:norace
func goid() uint64 {
	var buf [64]byte
	n := runtime.Stack(buf[:], false)
	// "goroutine 123 ["
	var id uint64
	for i := 10; i < n; i++ {
		c := buf[i]
		if c < '0' || c > '9' {
			break
		}
		id = id*10 + uint64(c-'0')
	}
	return id
}

// Run executes all spawned tasks under the policy and returns when every task
// has finished, or a deadlock / yield cap stopped the run. watchdog is the
// real-time limit after which the process exits with status 3 (a task blocked
// outside the simulator's control).
func (s *Sim) Run(watchdog time.Duration) {
	if len(s.tasks) == 0 {
		return
	}
	if s.pol.Mode == "pct" {
		order := s.rng.Perm(len(s.tasks))
		for i, t := range s.tasks {
			t.prio = order[i] + s.pol.PCTDepth + 1
		}
		s.pctPoints = map[int]bool{}
		est := s.pol.EstYields
		if est < 10 {
			est = 10
		}
		for i := 0; i < s.pol.PCTDepth; i++ {
			s.pctPoints[s.rng.Intn(est)] = true
		}
		if len(s.pol.PCTPoints) > 0 {
			s.pctPoints = map[int]bool{}
			for _, k := range s.pol.PCTPoints {
				s.pctPoints[k] = true
			}
			for i, t := range s.tasks {
				t.prio = len(s.tasks) - i + len(s.pol.PCTPoints) + 1
			}
		}
	}
	for _, t := range s.tasks {
		t := t
		s.wg.Add(1)
		go func() {
			defer s.wg.Done()
			rawRead(t.rfd)
			s.taskMain(t)
		}()
	}
	stop := make(chan struct{})
	go func() {
		deadline := time.After(watchdog)
		tick := time.NewTicker(50 * time.Millisecond)
		defer tick.Stop()
		var last uint64
		still := 0
		for {
			select {
			case <-stop:
				return
			case <-deadline:
				fmt.Fprintf(os.Stderr, "simrt: WATCHDOG: run did not finish within %v; a task is blocked outside the simulator's control (last site %s)\n", watchdog, s.lastSiteUnsafe())
				buf := make([]byte, 1<<20)
				n := runtime.Stack(buf, true)
				os.Stderr.Write(buf[:n])
				os.Exit(3)
			case <-tick.C:
				p := s.progressUnsafe()
				if p != last {
					last, still = p, 0
					continue
				}
				still++
				if still < 3 {
					continue
				}
				// no yield for 150 ms: is the baton holder asleep in the Go runtime? (after 5 s
				// without a yield a holder that is still running counts too: it spins, outside the
				// simulator's yield points, on something only another goroutine can change)
				if info, ok := s.holderBlocked(still >= 100 && s.NumTasks() > 1); ok {
					if still < 5 {
						continue // must still be so 100 ms later
					}
					if s.progressUnsafe() != last {
						last, still = s.progressUnsafe(), 0
						continue
					}
					s.setNativeBlocked(info)
					rawWrite(s.mainW)
					return
				}
			}
		}
	}()
	setActive(s)
	first := s.firstTask()
	s.setCur(first)
	rawWrite(first.wfd)
	rawRead(s.mainR)
	setActive(nil)
	close(stop)
	if !s.Deadlock && !s.Capped && !s.nativeBlockedUnsafe() {
		s.releaseWaitingTimers() // timers that never fired: their goroutines leave without running anything
		s.wg.Wait()              // real happens-before edge: results written by tasks are now visible
	}
	s.finished = true
}

//go:norace
func (s *Sim) progressUnsafe() uint64 {
	return uint64(s.Stats.Yields) + uint64(len(s.Switches))<<40
}

//go:norace
func (s *Sim) nativeBlockedUnsafe() bool { return s.NativeBlocked }

//go:norace
func (s *Sim) setNativeBlocked(info string) {
	s.NativeBlocked = true
	s.BlockedInfo = info
	if s.cur != nil {
		s.StuckSite = s.cur.curSite
	}
}

//go:norace
func (s *Sim) holderGoid() uint64 {
	if s.cur == nil {
		return 0
	}
	return s.cur.goid
}

// blockedStates are the wait reasons of a goroutine that only another
// goroutine can end.
var blockedStates = []string{"semacquire", "sync.WaitGroup.Wait", "sync.Cond.Wait", "chan receive", "chan send", "select",
	"sync.Mutex.Lock", "sync.RWMutex.RLock", "sync.RWMutex.Lock", "sleep", "IO wait"}

// holderBlocked inspects the goroutine dump for the task that holds the baton.
func (s *Sim) holderBlocked(spinningCounts bool) (string, bool) {
	id := s.holderGoid()
	if id == 0 {
		return "", false
	}
	buf := make([]byte, 1<<20)
	n := runtime.Stack(buf, true)
	dump := string(buf[:n])
	hdr := fmt.Sprintf("goroutine %d [", id)
	i := strings.Index(dump, hdr)
	if i < 0 {
		return "", false
	}
	rest := dump[i+len(hdr):]
	j := strings.IndexByte(rest, ']')
	if j < 0 {
		return "", false
	}
	state := rest[:j]
	blocked := false
	for _, b := range blockedStates {
		if strings.HasPrefix(state, b) {
			blocked = true
		}
	}
	if !blocked {
		if !spinningCounts || !(strings.HasPrefix(state, "running") || strings.HasPrefix(state, "runnable")) {
			return "", false
		}
		state = "spinning without reaching a yield point for 5 s (" + state + ")"
	}
	// innermost frames, for the report
	end := strings.Index(rest, "\n\n")
	if end < 0 {
		end = len(rest)
	}
	lines := strings.Split(rest[j+1:end], "\n")
	var fr []string
	for _, l := range lines {
		l = strings.TrimSpace(l)
		if l == "" || strings.HasPrefix(l, "/") || strings.HasPrefix(l, "runtime.") || strings.HasPrefix(l, "internal/") || strings.HasPrefix(l, ":") {
			continue
		}
		if k := strings.IndexByte(l, '('); k > 0 {
			l = l[:k]
		}
		fr = append(fr, l)
		if len(fr) == 4 {
			break
		}
	}
	return state + " in " + strings.Join(fr, " < "), true
}

//go:norace
func (s *Sim) lastSiteUnsafe() string {
	if s.cur != nil {
		return s.cur.Name + "@" + s.cur.curSite
	}
	return "?"
}

//go:norace
func (s *Sim) setCur(t *Task) { s.cur = t }

//go:norace
func (s *Sim) firstTask() *Task {
	t := s.chooseFirst()
	s.recordSwitch(-1, 0, t.ID)
	return t
}

//go:norace
func (s *Sim) chooseFirst() *Task {
	switch s.pol.Mode {
	case "serial":
		if len(s.pol.SerialOrder) > 0 && s.pol.SerialOrder[0] < len(s.tasks) {
			return s.tasks[s.pol.SerialOrder[0]]
		}
		return s.tasks[0]
	case "forced":
		if to, ok := s.forced[[2]int{-1, 0}]; ok && to >= 0 && to < len(s.tasks) {
			return s.tasks[to]
		}
		return s.tasks[0]
	case "pct":
		best := s.tasks[0]
		for _, t := range s.tasks {
			if t.prio > best.prio {
				best = t
			}
		}
		return best
	}
	return s.tasks[s.rng.Intn(len(s.tasks))]
}

//go:norace
func (s *Sim) recordSwitch(from, at, to int) {
	s.Switches = append(s.Switches, Switch{from, at, to})
}

func (s *Sim) taskMain(t *Task) {
	s.setGoid(t) // also lets the watchdog find the goroutine that holds the baton
	t.fn()
	s.finish(t)
}

//go:norace
func (s *Sim) checkGoidEnabled() bool { return s.checkGoid }

//go:norace
func (s *Sim) setGoid(t *Task) { t.goid = goid() }

//go:norace
func (s *Sim) logEvent(t *Task, kind uint8, site string) {
	h := s.Sig
	h ^= uint64(t.ID) + uint64(kind)<<8
	h *= 1099511628211
	h ^= HashString(site)
	h *= 1099511628211
	s.Sig = h
	if s.KeepEvents {
		s.Events = append(s.Events, Event{int32(t.ID), kind, site})
	}
}

//go:norace
func (s *Sim) finish(t *Task) {
	t.state = stDone
	s.logEvent(t, EvFinish, "")
	s.unlockEpoch++ // a finished task can no longer release anything; let blocked tasks retry once
	next := s.pick(t, false)
	if next == nil {
		// everything done, or deadlock among the rest
		for _, o := range s.tasks {
			if o.state == stRunnable {
				s.Deadlock = true
			}
		}
		rawWrite(s.mainW)
		return
	}
	s.cur = next
	s.recordSwitch(t.ID, t.localYield+1, next.ID)
	rawWrite(next.wfd)
}

// candidates returns the tasks that may run now.
//
//go:norace
func (s *Sim) candidates(buf []*Task) []*Task {
	buf = buf[:0]
	for _, o := range s.tasks {
		if o.state != stRunnable || o.stalled || o.condWait != nil || o.wgWait != nil {
			continue
		}
		if o.blocked && o.blockedEpoch == s.unlockEpoch {
			continue
		}
		buf = append(buf, o)
	}
	return buf
}

//go:norace
func contains(c []*Task, t *Task) bool {
	for _, o := range c {
		if o == t {
			return true
		}
	}
	return false
}

// pick chooses who runs next. canStay says whether the current task t may
// keep the baton. Returns nil when nothing can run.
//
//go:norace
func (s *Sim) pick(t *Task, canStay bool) *Task {
	var arr [maxTasks]*Task
	c := s.candidates(arr[:0])
	if len(c) == 0 {
		// release stalls before declaring deadlock
		released := false
		for _, o := range s.tasks {
			if o.stalled && o.state != stDone {
				o.stalled = false
				released = true
				s.logEvent(o, EvUnstall, "")
			}
		}
		if released {
			c = s.candidates(arr[:0])
		}
		if len(c) == 0 && s.jumpToNextTimer() {
			// discrete-event time: nothing is runnable, so the clock moves to the next deadline
			c = s.candidates(arr[:0])
		}
		if len(c) == 0 {
			return nil
		}
	}
	stayOK := canStay && contains(c, t)

	switch s.pol.Mode {
	case "forced":
		if to, ok := s.forced[[2]int{t.ID, s.forcedKey(t)}]; ok && to >= 0 && to < len(s.tasks) && contains(c, s.tasks[to]) {
			return s.tasks[to]
		}
		if stayOK {
			return t
		}
		return c[0]
	case "serial":
		if stayOK {
			return t
		}
		for _, id := range s.pol.SerialOrder {
			if id < len(s.tasks) && contains(c, s.tasks[id]) {
				return s.tasks[id]
			}
		}
		return c[0]
	case "pct":
		if s.pctPoints[s.nYield] && t.state != stDone {
			// priority change point: current task drops below everyone
			low := t.prio
			for _, o := range s.tasks {
				if o.prio < low {
					low = o.prio
				}
			}
			t.prio = low - 1
		}
		best := c[0]
		for _, o := range c {
			if o.prio > best.prio {
				best = o
			}
		}
		if !stayOK && best == t {
			// cannot stay: take the best other
			var b2 *Task
			for _, o := range c {
				if o != t && (b2 == nil || o.prio > b2.prio) {
					b2 = o
				}
			}
			if b2 != nil {
				return b2
			}
		}
		return best
	}
	// random
	if stayOK {
		if len(c) == 1 || !s.rng.Bool(s.pol.SwitchProb) {
			return t
		}
		// choose uniformly among the others
		k := s.rng.Intn(len(c) - 1)
		for _, o := range c {
			if o == t {
				continue
			}
			if k == 0 {
				return o
			}
			k--
		}
	}
	// must leave: uniform among candidates other than t if any
	var others [maxTasks]*Task
	oc := others[:0]
	for _, o := range c {
		if o != t {
			oc = append(oc, o)
		}
	}
	if len(oc) == 0 {
		return c[0]
	}
	return oc[s.rng.Intn(len(oc))]
}

//go:norace
func (s *Sim) forcedKey(t *Task) int {
	if t.state == stDone {
		return t.localYield + 1
	}
	return t.localYield
}

// step is the body of every yield point.
//
//go:norace
func (s *Sim) step(t *Task, site string, kind uint8, blockedNow bool) {
	s.nYield++
	s.Stats.Yields++
	t.localYield++
	t.opYields++
	if t.opYields > s.Stats.MaxOpYields {
		s.Stats.MaxOpYields = t.opYields
	}
	if clockOn {
		advanceClock(10 * time.Microsecond) // simulated time passes at every yield
		s.fireDueTimers()
	}
	prevSite := t.curSite
	t.curSite = site
	if kind == EvYield {
		h := HashString(site) & 4095
		s.SiteBits[h>>6] |= 1 << (h & 63)
	}
	s.logEvent(t, kind, site)
	if blockedNow {
		s.Stats.BlockedYields++
		t.blocked = true
		t.blockedEpoch = s.unlockEpoch
	} else {
		t.blocked = false
	}
	if s.nYield > s.pol.MaxYields {
		s.Capped = true
		s.StuckSite = site
		rawWrite(s.mainW)
		rawRead(t.rfd) // park forever
	}
	inBuild := s.InBuild != nil && s.InBuild(site)
	if inBuild && !(s.InBuild != nil && prevSite != "" && s.InBuild(prevSite)) {
		// entering the build path: is someone else parked inside it?
		for _, o := range s.tasks {
			if o != t && o.state == stRunnable && o.curSite != "" && s.InBuild(o.curSite) {
				s.Stats.OverlapBuild++
				break
			}
		}
	}
	// stall fault: park this task until the others have completed work
	if (s.pol.Mode == "random" || s.pol.Mode == "pct") && !blockedNow && !t.stalled && s.Stats.Stalls < s.maxStalls() {
		p := s.pol.StallAny
		if inBuild {
			p += s.pol.StallProb
		}
		if p > 0 && s.rng.Bool(p) {
			live := 0
			for _, o := range s.tasks {
				if o != t && o.state == stRunnable && !o.timer {
					live++
				}
			}
			if live > 0 {
				t.stalled = true
				t.stallUntil = s.opsCompleted + live
				s.Stats.Stalls++
				if inBuild {
					s.Stats.StallsInBuild++
				}
				s.logEvent(t, EvStall, site)
			}
		}
	}
	next := s.pick(t, !blockedNow)
	if next == nil {
		s.Deadlock = true
		s.StuckSite = site
		rawWrite(s.mainW)
		rawRead(t.rfd) // park forever
	}
	if next == t {
		return
	}
	if inBuild {
		s.Stats.SwitchInBuild++
	}
	s.Stats.Switches++
	s.recordSwitch(t.ID, t.localYield, next.ID)
	s.logEvent(next, EvSwitch, "")
	s.cur = next
	rawWrite(next.wfd)
	rawRead(t.rfd)
}

//go:norace
func (s *Sim) maxStalls() int {
	if s.pol.MaxStalls > 0 {
		return s.pol.MaxStalls
	}
	return 2
}

//go:norace
func current() (*Sim, *Task) {
	s := active
	if s == nil {
		return nil, nil
	}
	t := s.cur
	if t == nil {
		return nil, nil
	}
	if s.checkGoid && t.goid != goid() {
		s.Stats.ForeignYields++
		return nil, nil
	}
	return s, t
}

// Yield is inserted by simrewrite before statements that touch shared state.
//
//go:norace
func Yield(site string) {
	s, t := current()
	if s == nil {
		if nativeMode {
			runtime.Gosched()
		}
		return
	}
	s.step(t, site, EvYield, false)
}

// Lock replaces X.Lock() / X.RLock(): it spins on the real TryLock (so the
// race detector sees the real acquire) and yields as "blocked" in between.
func Lock(try func() bool, lock func(), site string) {
	s, t := current()
	if s == nil {
		lock()
		return
	}
	s.step(t, site, EvYield, false)
	first := true
	for !try() {
		if first {
			countContention(s)
			first = false
		}
		s.step(t, site, EvBlocked, true)
	}
	clearBlocked(t)
}

// LockW replaces X.Lock() on a sync.RWMutex. key identifies the mutex.
func LockW(key any, try func() bool, lock func(), site string) {
	s, t := current()
	if s == nil {
		lock()
		return
	}
	s.step(t, site, EvYield, false)
	first := true
	for !try() {
		if first {
			countContention(s)
			first = false
		}
		setWriterWaiting(s, key, t, true)
		s.step(t, site, EvBlocked, true)
	}
	setWriterWaiting(s, key, t, false)
	clearBlocked(t)
}

// LockR replaces X.RLock() on a sync.RWMutex: a reader queues behind a writer
// that is already waiting, exactly as the real RWMutex does - which is what
// makes a re-entrant read lock a deadlock.
func LockR(key any, try func() bool, lock func(), site string) {
	s, t := current()
	if s == nil {
		lock()
		return
	}
	s.step(t, site, EvYield, false)
	first := true
	for {
		if !otherWriterWaiting(s, key, t) && try() {
			break
		}
		if first {
			countContention(s)
			first = false
		}
		s.step(t, site, EvBlocked, true)
	}
	clearBlocked(t)
}

//go:norace
func setWriterWaiting(s *Sim, key any, t *Task, on bool) {
	for i := 0; i < s.nRW; i++ {
		if s.rwWaiting[i].task == t && s.rwWaiting[i].key == key {
			if !on {
				s.nRW--
				s.rwWaiting[i] = s.rwWaiting[s.nRW]
				s.rwWaiting[s.nRW] = rwWait{}
			}
			return
		}
	}
	if on && s.nRW < len(s.rwWaiting) {
		s.rwWaiting[s.nRW] = rwWait{key, t}
		s.nRW++
		s.Stats.WriterQueued++
	}
}

//go:norace
func otherWriterWaiting(s *Sim, key any, t *Task) bool {
	for i := 0; i < s.nRW; i++ {
		w := s.rwWaiting[i]
		if w.task != t && w.task.state != stDone && w.key == key {
			return true
		}
	}
	return false
}

//go:norace
func countContention(s *Sim) { s.Stats.LockContention++ }

//go:norace
func clearBlocked(t *Task) { t.blocked = false }

// Unlock replaces X.Unlock() / X.RUnlock().
func Unlock(unlock func(), site string) {
	unlock()
	s, t := current()
	if s == nil {
		return
	}
	bumpEpoch(s)
	s.step(t, site, EvYield, false)
}

//go:norace
func bumpEpoch(s *Sim) { s.unlockEpoch++ }

// OnceDo replaces (*sync.Once).Do(f). A sim-side gate keeps a second task from
// blocking for real inside the Once while the first is parked inside f.
func OnceDo(o *sync.Once, f func(), site string) {
	s, t := current()
	if s == nil {
		o.Do(f)
		return
	}
	s.step(t, site, EvYield, false)
	for {
		st := onceEnter(s, t, o)
		if st == 0 { // we run it
			func() {
				defer onceLeave(s, o)
				o.Do(f)
			}()
			return
		}
		if st == 1 { // done already: the real Once provides the happens-before edge
			o.Do(f)
			return
		}
		if st == 3 {
			declareDeadlock(s, t, site+" (sync.Once.Do called recursively from inside its own function)")
		}
		s.step(t, site, EvBlocked, true)
	}
}

// declareDeadlock ends the run: the calling task can never proceed.
//
//go:norace
func declareDeadlock(s *Sim, t *Task, site string) {
	s.Deadlock = true
	s.StuckSite = site
	rawWrite(s.mainW)
	rawRead(t.rfd) // park forever
}

//go:norace
func findOnce(s *Sim, o *sync.Once) *onceState {
	for i := 0; i < s.nOnces; i++ {
		if s.onces[i].once == o {
			return s.onces[i]
		}
	}
	return nil
}

//go:norace
func onceEnter(s *Sim, t *Task, o *sync.Once) int {
	st := findOnce(s, o)
	if st == nil {
		if s.nOnces < len(s.onces) {
			s.onces[s.nOnces] = &onceState{once: o, running: t}
			s.nOnces++
		}
		return 0
	}
	if st.done {
		return 1
	}
	if st.running == t {
		return 3 // recursive Do on the same Once: the real sync.Once deadlocks
	}
	s.Stats.OnceWaits++
	return 2
}

//go:norace
func onceLeave(s *Sim, o *sync.Once) {
	st := findOnce(s, o)
	st.done = true
	st.running = nil
	s.unlockEpoch++
}

// OpDone is called by the harness after each operation of a task.
//
//go:norace
func OpDone() {
	s, t := current()
	if s == nil {
		return
	}
	s.opsCompleted++
	t.opIndex++
	t.opYields = 0
	t.permCalls = 0
	for _, o := range s.tasks {
		if o.stalled && s.opsCompleted >= o.stallUntil {
			o.stalled = false
			s.logEvent(o, EvUnstall, "")
		}
	}
	s.step(t, "op", EvOpDone, false)
}

// CurrentTask returns (task id, op index, per-op perm call counter++) for the
// task holding the baton, or ok=false outside a simulation.
//
//go:norace
func CurrentTask() (id, op, call int, ok bool) {
	s, t := current()
	if s == nil {
		return 0, 0, 0, false
	}
	c := t.permCalls
	t.permCalls++
	return t.ID, t.opIndex, c, true
}

func (s *Sim) NumTasks() int { return len(s.tasks) }

// Close releases the pipes of a finished run.
func (s *Sim) Close() {
	if s.Deadlock || s.Capped || s.NativeBlocked {
		return // goroutines are still parked on them
	}
	syscall.Close(s.mainR)
	syscall.Close(s.mainW)
	for _, t := range s.tasks {
		syscall.Close(t.rfd)
		syscall.Close(t.wfd)
	}
}
