package simrt

import "google.golang.org/protobuf/types/descriptorpb"

// DependencySet is what protobuild needs from the dependency side.
type DependencySet interface {
	GetDependencyFile(filename string) (*descriptorpb.FileDescriptorProto, error)
	ListDependencyFiles(prefix string) []string
}

// RealDependencySet is set (in an init function of a file the driver adds to the scratch copy of
// internal/source) to a constructor of the repository's own DependencySet implementation over
// the given files. nil when that implementation is not there to be exported.
var RealDependencySet func(files []*descriptorpb.FileDescriptorProto) (DependencySet, error)
