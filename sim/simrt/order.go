// Package simrt is the runtime of the deterministic simulator. It is copied
// into a scratch copy of github.com/pentops/j5 (as internal/zzverif/simrt) and
// called from code inserted by tools/simrewrite. It owns every source of
// nondeterminism that the claimed properties depend on:
//
//   - iteration order of Go maps and protobuf containers (this file);
//   - which goroutine runs next (sched.go).
//
// Nothing in this package reads a clock or the global math/rand to make a
// decision; the only real-time use is the watchdog that aborts a stuck run.
package simrt

import (
	"cmp"
	"fmt"
	"iter"
	"slices"
	"sort"

	"google.golang.org/protobuf/proto"
	"google.golang.org/protobuf/reflect/protoreflect"
	"google.golang.org/protobuf/reflect/protoregistry"
	"google.golang.org/protobuf/types/dynamicpb"
)

// PermFunc returns the order in which n elements (given in a canonical,
// sorted order) are visited at an iteration site. nil means identity.
// content is a hash of the canonical element keys: a decision source that
// derives the permutation from (seed, site, content) is independent of how
// many other iterations ran before and of which goroutine asks.
type PermFunc func(site string, n int, content uint64) []int

var permHook PermFunc

// SetPermHook installs the decision source for iteration order. It must be
// called while no simulated task is running.
func SetPermHook(f PermFunc) { permHook = f }

//go:norace
func perm(site string, n int, content uint64) []int {
	if n < 2 {
		return nil
	}
	h := permHook
	if h == nil {
		return nil
	}
	p := h(site, n, content)
	if p != nil && len(p) != n {
		panic("simrt: permutation of wrong length")
	}
	return p
}

func hashAny[K cmp.Ordered](keys []K) uint64 {
	h := uint64(14695981039346656037)
	for _, k := range keys {
		switch v := any(k).(type) {
		case string:
			h = (h ^ HashString(v)) * 1099511628211
		default:
			h = (h ^ HashString(fmt.Sprint(v))) * 1099511628211
		}
	}
	return h
}

func hashStrings(keys []string) uint64 {
	h := uint64(14695981039346656037)
	for _, k := range keys {
		h = (h ^ HashString(k)) * 1099511628211
	}
	return h
}

// HashStrings is the content hash used for listings.
func HashStrings(keys []string) uint64 { return hashStrings(keys) }

// MapSeq replaces `range m` over a Go map with an ordered key type.
func MapSeq[M ~map[K]V, K cmp.Ordered, V any](m M, site string) iter.Seq2[K, V] {
	return func(yield func(K, V) bool) {
		keys := make([]K, 0, len(m))
		for k := range m {
			keys = append(keys, k)
		}
		slices.Sort(keys)
		p := perm(site, len(keys), hashAny(keys))
		for i := range keys {
			k := keys[i]
			if p != nil {
				k = keys[p[i]]
			}
			v, ok := m[k]
			if !ok {
				continue // deleted during iteration: Go never produces it
			}
			if !yield(k, v) {
				return
			}
		}
	}
}

// MapKeys replaces golang.org/x/exp/maps.Keys.
func MapKeys[M ~map[K]V, K cmp.Ordered, V any](m M, site string) []K {
	keys := make([]K, 0, len(m))
	for k := range m {
		keys = append(keys, k)
	}
	slices.Sort(keys)
	p := perm(site, len(keys), hashAny(keys))
	if p == nil {
		return keys
	}
	out := make([]K, len(keys))
	for i := range keys {
		out[i] = keys[p[i]]
	}
	return out
}

// MapValues replaces golang.org/x/exp/maps.Values.
func MapValues[M ~map[K]V, K cmp.Ordered, V any](m M, site string) []V {
	keys := MapKeys(m, site)
	out := make([]V, 0, len(keys))
	for _, k := range keys {
		out = append(out, m[k])
	}
	return out
}

// StdMapKeys replaces the standard library's maps.Keys (an iterator).
func StdMapKeys[M ~map[K]V, K cmp.Ordered, V any](m M, site string) iter.Seq[K] {
	return func(yield func(K) bool) {
		for k := range MapSeq(m, site) {
			if !yield(k) {
				return
			}
		}
	}
}

// StdMapValues replaces the standard library's maps.Values (an iterator).
func StdMapValues[M ~map[K]V, K cmp.Ordered, V any](m M, site string) iter.Seq[V] {
	return func(yield func(V) bool) {
		for _, v := range MapSeq(m, site) {
			if !yield(v) {
				return
			}
		}
	}
}

// StdMapAll replaces the standard library's maps.All.
func StdMapAll[M ~map[K]V, K cmp.Ordered, V any](m M, site string) iter.Seq2[K, V] {
	return MapSeq(m, site)
}

type fieldEnt struct {
	fd protoreflect.FieldDescriptor
	v  protoreflect.Value
}

// RangeMessage replaces protoreflect.Message.Range. Order model: a
// *dynamicpb.Message ranges a Go map of all populated fields, so everything
// is permuted; any other implementation (generated messages) visits known
// fields in a fixed order and then its extension fields from a Go map, so only
// the extension tail is permuted.
func RangeMessage(m protoreflect.Message, f func(protoreflect.FieldDescriptor, protoreflect.Value) bool, site string) {
	var fixed, free []fieldEnt
	_, dyn := m.(*dynamicpb.Message)
	m.Range(func(fd protoreflect.FieldDescriptor, v protoreflect.Value) bool {
		if dyn || fd.IsExtension() {
			free = append(free, fieldEnt{fd, v})
		} else {
			fixed = append(fixed, fieldEnt{fd, v})
		}
		return true
	})
	if dyn {
		sort.SliceStable(free, func(i, j int) bool { return free[i].fd.Number() < free[j].fd.Number() })
	} else {
		sort.SliceStable(free, func(i, j int) bool { return free[i].fd.FullName() < free[j].fd.FullName() })
	}
	for _, e := range fixed {
		if !f(e.fd, e.v) {
			return
		}
	}
	var names []string
	for _, e := range free {
		names = append(names, string(e.fd.FullName()))
	}
	p := perm(site, len(free), hashStrings(names))
	for i := range free {
		e := free[i]
		if p != nil {
			e = free[p[i]]
		}
		if !f(e.fd, e.v) {
			return
		}
	}
}

type mapEnt struct {
	k protoreflect.MapKey
	v protoreflect.Value
}

func mapKeyLess(a, b protoreflect.MapKey) bool {
	switch av := a.Interface().(type) {
	case bool:
		return !av && b.Bool()
	case int32:
		return int64(av) < b.Int()
	case int64:
		return av < b.Int()
	case uint32:
		return uint64(av) < b.Uint()
	case uint64:
		return av < b.Uint()
	case string:
		return av < b.String()
	}
	return a.String() < b.String()
}

// RangeProtoMap replaces protoreflect.Map.Range (always a Go map underneath).
func RangeProtoMap(m protoreflect.Map, f func(protoreflect.MapKey, protoreflect.Value) bool, site string) {
	var ents []mapEnt
	m.Range(func(k protoreflect.MapKey, v protoreflect.Value) bool {
		ents = append(ents, mapEnt{k, v})
		return true
	})
	sort.SliceStable(ents, func(i, j int) bool { return mapKeyLess(ents[i].k, ents[j].k) })
	var names []string
	for _, e := range ents {
		names = append(names, e.k.String())
	}
	p := perm(site, len(ents), hashStrings(names))
	for i := range ents {
		e := ents[i]
		if p != nil {
			e = ents[p[i]]
		}
		if !f(e.k, e.v) {
			return
		}
	}
}

// RangeFiles replaces (*protoregistry.Files).RangeFiles (ranges a Go map).
func RangeFiles(r *protoregistry.Files, f func(protoreflect.FileDescriptor) bool, site string) {
	var files []protoreflect.FileDescriptor
	r.RangeFiles(func(fd protoreflect.FileDescriptor) bool {
		files = append(files, fd)
		return true
	})
	sort.SliceStable(files, func(i, j int) bool { return files[i].Path() < files[j].Path() })
	p := perm(site, len(files), hashFiles(files))
	for i := range files {
		fd := files[i]
		if p != nil {
			fd = files[p[i]]
		}
		if !f(fd) {
			return
		}
	}
}

// RangeFilesByPackage replaces (*protoregistry.Files).RangeFilesByPackage.
func RangeFilesByPackage(r *protoregistry.Files, name protoreflect.FullName, f func(protoreflect.FileDescriptor) bool, site string) {
	var files []protoreflect.FileDescriptor
	r.RangeFilesByPackage(name, func(fd protoreflect.FileDescriptor) bool {
		files = append(files, fd)
		return true
	})
	sort.SliceStable(files, func(i, j int) bool { return files[i].Path() < files[j].Path() })
	p := perm(site, len(files), hashFiles(files))
	for i := range files {
		fd := files[i]
		if p != nil {
			fd = files[p[i]]
		}
		if !f(fd) {
			return
		}
	}
}

func hashFiles(files []protoreflect.FileDescriptor) uint64 {
	var names []string
	for _, f := range files {
		names = append(names, f.Path())
	}
	return hashStrings(names)
}

type extEnt struct {
	t protoreflect.ExtensionType
	v interface{}
}

// RangeExtensions replaces proto.RangeExtensions (ranges a Go map).
func RangeExtensions(m proto.Message, f func(protoreflect.ExtensionType, interface{}) bool, site string) {
	var ents []extEnt
	proto.RangeExtensions(m, func(t protoreflect.ExtensionType, v interface{}) bool {
		ents = append(ents, extEnt{t, v})
		return true
	})
	sort.SliceStable(ents, func(i, j int) bool {
		return ents[i].t.TypeDescriptor().FullName() < ents[j].t.TypeDescriptor().FullName()
	})
	var names []string
	for _, e := range ents {
		names = append(names, string(e.t.TypeDescriptor().FullName()))
	}
	p := perm(site, len(ents), hashStrings(names))
	for i := range ents {
		e := ents[i]
		if p != nil {
			e = ents[p[i]]
		}
		if !f(e.t, e.v) {
			return
		}
	}
}
