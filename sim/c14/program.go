package main

import (
	"crypto/sha256"
	"encoding/base64"
	"encoding/hex"
	"fmt"
	"sort"
	"strings"

	"google.golang.org/protobuf/proto"
	"google.golang.org/protobuf/types/descriptorpb"
)

// Program is one bundle of source files: the "input program" of C14.
type Program struct {
	Name     string
	Packages []string
	Files    map[string]string
	Deps     []*descriptorpb.FileDescriptorProto
	Features map[string]int
}

type ProgramJSON struct {
	Name     string            `json:"name"`
	Packages []string          `json:"packages"`
	Files    map[string]string `json:"files"`
	Deps     []string          `json:"deps_b64,omitempty"`
	DepNames []string          `json:"dep_names,omitempty"`
}

func (p *Program) ToJSON() *ProgramJSON {
	out := &ProgramJSON{Name: p.Name, Packages: p.Packages, Files: p.Files}
	for _, d := range p.Deps {
		b, err := proto.MarshalOptions{Deterministic: true}.Marshal(d)
		if err != nil {
			panic(err)
		}
		out.Deps = append(out.Deps, base64.StdEncoding.EncodeToString(b))
		out.DepNames = append(out.DepNames, d.GetName())
	}
	return out
}

func (pj *ProgramJSON) ToProgram() (*Program, error) {
	p := &Program{Name: pj.Name, Packages: pj.Packages, Files: pj.Files}
	for _, s := range pj.Deps {
		b, err := base64.StdEncoding.DecodeString(s)
		if err != nil {
			return nil, err
		}
		fd := &descriptorpb.FileDescriptorProto{}
		if err := proto.Unmarshal(b, fd); err != nil {
			return nil, err
		}
		p.Deps = append(p.Deps, fd)
	}
	return p, nil
}

func (p *Program) Digest() string {
	h := sha256.New()
	names := p.FileNames()
	for _, n := range names {
		fmt.Fprintf(h, "%s\x00%s\x00", n, p.Files[n])
	}
	for _, d := range p.Deps {
		b, _ := proto.MarshalOptions{Deterministic: true}.Marshal(d)
		h.Write(b)
	}
	fmt.Fprintf(h, "%s", strings.Join(p.Packages, ","))
	return hex.EncodeToString(h.Sum(nil))[:16]
}

func (p *Program) FileNames() []string {
	names := make([]string, 0, len(p.Files))
	for n := range p.Files {
		names = append(names, n)
	}
	sort.Strings(names)
	return names
}

func (p *Program) Clone() *Program {
	c := &Program{Name: p.Name, Packages: append([]string{}, p.Packages...), Files: map[string]string{}, Features: p.Features}
	for k, v := range p.Files {
		c.Files[k] = v
	}
	for _, d := range p.Deps {
		c.Deps = append(c.Deps, proto.Clone(d).(*descriptorpb.FileDescriptorProto))
	}
	return c
}

func j5s(lines ...string) string { return strings.Join(lines, "\n") + "\n" }

// builtinPrograms are hand-written bundles that exercise specific
// order-sensitive features; they are always part of the workload, next to the
// repository's own fixture and the generated bundles.
func builtinPrograms() []*Program {
	var out []*Program

	// 1. enum options with several info entries + description (map-valued option).
	out = append(out, &Program{
		Name:     "builtin/enum_info",
		Packages: []string{"local.v1"},
		Files: map[string]string{
			"local/v1/foo.j5s": j5s(
				"package local.v1",
				"",
				"enum Colour {",
				"  | Colours of things",
				"  option RED {",
				"    | very red",
				"    info.hex = \"ff0000\"",
				"    info.alias = \"rouge\"",
				"    info.zeta = \"z\"",
				"    info.beta = \"b\"",
				"  }",
				"  option GREEN {",
				"    info.hex = \"00ff00\"",
				"    info.alias = \"vert\"",
				"  }",
				"  option BLUE {",
				"    | keys that differ by case, by an underscore, by a digit",
				"    info.ui = \"lower\"",
				"    info.UI = \"upper\"",
				"    info.Ui = \"mixed\"",
				"    info.ui_2 = \"two\"",
				"    info.ui2 = \"2\"",
				"  }",
				"}",
				"",
				"object Thing {",
				"  field colour enum:Colour",
				"  field name ! string {",
				"    rules.minLength = 1",
				"    rules.maxLength = 10",
				"    listRules.searching.searchable = true",
				"  }",
				"}",
			),
		},
	})

	// 2. two packages, several files, proto <-> j5s imports both ways.
	out = append(out, &Program{
		Name:     "builtin/multi_pkg",
		Packages: []string{"bar.v1", "foo.v1"},
		Files: map[string]string{
			"foo/v1/a.j5s": j5s(
				"package foo.v1",
				"import bar.v1",
				"import \"bar/v1/raw.proto\"",
				"",
				"object A {",
				"  field b object:B",
				"  field bar object:bar.v1.Bar",
				"  field raw object:bar.v1.Raw",
				"  field kind enum:bar.v1.Kind",
				"  field c object:C",
				"}",
			),
			"foo/v1/b.j5s": j5s(
				"package foo.v1",
				"",
				"object B {",
				"  field id ! key:id62",
				"  field names array:string",
				"}",
				"",
				"oneof Choice {",
				"  option b object:B",
				"  option s string",
				"}",
			),
			"foo/v1/c.proto": strings.Join([]string{
				"syntax = \"proto3\";",
				"package foo.v1;",
				"import \"foo/v1/b.j5s.proto\";",
				"message C {",
				"  string f1 = 1;",
				"  B back = 2;",
				"}",
			}, "\n"),
			"bar/v1/bar.j5s": j5s(
				"package bar.v1",
				"",
				"object Bar {",
				"  field id ! key:id62",
				"  field kind enum:Kind",
				"}",
				"",
				"enum Kind {",
				"  option ONE",
				"  option TWO",
				"}",
			),
			"bar/v1/raw.proto": strings.Join([]string{
				"syntax = \"proto3\";",
				"package bar.v1;",
				"message Raw {",
				"  string f1 = 1;",
				"}",
			}, "\n"),
		},
	})

	// 3. the repository's entity fixture, with a dependency package.
	dep := &descriptorpb.FileDescriptorProto{
		Name:    proto.String("ext/v1/thing.proto"),
		Syntax:  proto.String("proto3"),
		Package: proto.String("ext.v1"),
		MessageType: []*descriptorpb.DescriptorProto{{
			Name: proto.String("Thing"),
			Field: []*descriptorpb.FieldDescriptorProto{{
				Name: proto.String("f1"), Number: proto.Int32(1),
				Type:     descriptorpb.FieldDescriptorProto_TYPE_STRING.Enum(),
				Label:    descriptorpb.FieldDescriptorProto_LABEL_OPTIONAL.Enum(),
				JsonName: proto.String("f1"),
			}},
		}},
	}
	dep2 := &descriptorpb.FileDescriptorProto{
		Name:       proto.String("ext/v1/other.proto"),
		Syntax:     proto.String("proto3"),
		Package:    proto.String("ext.v1"),
		Dependency: []string{"ext/v1/thing.proto"},
		MessageType: []*descriptorpb.DescriptorProto{{
			Name: proto.String("Other"),
			Field: []*descriptorpb.FieldDescriptorProto{{
				Name: proto.String("thing"), Number: proto.Int32(1),
				Type:     descriptorpb.FieldDescriptorProto_TYPE_MESSAGE.Enum(),
				TypeName: proto.String(".ext.v1.Thing"),
				Label:    descriptorpb.FieldDescriptorProto_LABEL_OPTIONAL.Enum(),
				JsonName: proto.String("thing"),
			}},
		}},
	}
	out = append(out, &Program{
		Name:     "builtin/entity_dep",
		Packages: []string{"j5st.v1"},
		Deps:     []*descriptorpb.FileDescriptorProto{dep2, dep},
		Files: map[string]string{
			"j5st/v1/foo.j5s": j5s(
				"package j5st.v1",
				"import \"ext/v1/thing.proto\"",
				"import \"ext/v1/other.proto\"",
				"",
				"entity Foo {",
				"  | Foo is lorem ipsum",
				"",
				"  key fooId key:id62 {",
				"    primary = true",
				"  }",
				"",
				"  key accountId key:id62 {",
				"    primary = false",
				"    tenant = \"account\"",
				"  }",
				"",
				"  data name string",
				"  data thing object:ext.v1.Thing",
				"  data other object:ext.v1.Other",
				"",
				"  status ACTIVE",
				"  status INACTIVE",
				"",
				"  event Create {",
				"    field name string",
				"  }",
				"",
				"  event Archive {",
				"  }",
				"",
				"  summary {",
				"    field name string",
				"  }",
				"}",
			),
		},
	})

	// 4. hand-written proto with custom options whose bodies have several populated fields
	// (dynamic messages for the printer), and a service with an http rule.
	out = append(out, &Program{
		Name:     "builtin/proto_options",
		Packages: []string{"opt.v1"},
		Files: map[string]string{
			"opt/v1/types.j5s": j5s(
				"package opt.v1",
				"",
				"object Widget {",
				"  field widgetId ! key:id62",
				"  field raw object:Raw",
				"}",
			),
			"opt/v1/raw.proto": strings.Join([]string{
				"syntax = \"proto3\";",
				"package opt.v1;",
				"import \"buf/validate/validate.proto\";",
				"import \"google/api/annotations.proto\";",
				"message Raw {",
				"  string name = 1 [(buf.validate.field) = {required: true, string: {min_len: 1, max_len: 30, pattern: \"^[a-z]+$\"}}];",
				"  int32 count = 2 [(buf.validate.field) = {required: true, int32: {gte: 1, lte: 99}}];",
				"  repeated string tags = 3 [(buf.validate.field).repeated = {min_items: 1, max_items: 5, unique: true}];",
				"}",
				"message GetRawRequest {",
				"  string name = 1;",
				"}",
				"service RawService {",
				"  rpc GetRaw(GetRawRequest) returns (Raw) {",
				"    option (google.api.http) = {get: \"/opt/v1/raw/{name}\" additional_bindings: {post: \"/opt/v1/raw\" body: \"*\"}};",
				"  }",
				"}",
			}, "\n"),
		},
	})

	// 5. short names that exist twice in a package: nested in one file, top level in another -
	// in a dependency package (two files) and in a local hand-written proto. Legal, and resolved the
	// same way whatever the listing order.
	st := func(n string, num int32) *descriptorpb.FieldDescriptorProto {
		return &descriptorpb.FieldDescriptorProto{Name: proto.String(n), Number: proto.Int32(num), Type: descriptorpb.FieldDescriptorProto_TYPE_STRING.Enum(),
			Label: descriptorpb.FieldDescriptorProto_LABEL_OPTIONAL.Enum(), JsonName: proto.String(n)}
	}
	enumOf := func(name, prefix string) *descriptorpb.EnumDescriptorProto {
		return &descriptorpb.EnumDescriptorProto{Name: proto.String(name), Value: []*descriptorpb.EnumValueDescriptorProto{
			{Name: proto.String(prefix + "_UNSPECIFIED"), Number: proto.Int32(0)},
			{Name: proto.String(prefix + "_ACTIVE"), Number: proto.Int32(1)},
			{Name: proto.String(prefix + "_DONE"), Number: proto.Int32(2)},
		}}
	}
	jobs := &descriptorpb.FileDescriptorProto{
		Name: proto.String("clash/v1/jobs.proto"), Syntax: proto.String("proto3"), Package: proto.String("clash.v1"),
		MessageType: []*descriptorpb.DescriptorProto{{
			Name:       proto.String("Job"),
			Field:      []*descriptorpb.FieldDescriptorProto{st("job_id", 1), {Name: proto.String("status"), Number: proto.Int32(2), Type: descriptorpb.FieldDescriptorProto_TYPE_ENUM.Enum(), TypeName: proto.String(".clash.v1.Job.Status"), Label: descriptorpb.FieldDescriptorProto_LABEL_OPTIONAL.Enum(), JsonName: proto.String("status")}},
			EnumType:   []*descriptorpb.EnumDescriptorProto{enumOf("Status", "JOB_STATUS")},
			NestedType: []*descriptorpb.DescriptorProto{{Name: proto.String("Detail"), Field: []*descriptorpb.FieldDescriptorProto{st("note", 1)}}},
		}},
	}
	kinds := &descriptorpb.FileDescriptorProto{
		Name: proto.String("clash/v1/kinds.proto"), Syntax: proto.String("proto3"), Package: proto.String("clash.v1"),
		EnumType:    []*descriptorpb.EnumDescriptorProto{enumOf("Status", "STATUS")},
		MessageType: []*descriptorpb.DescriptorProto{{Name: proto.String("Detail"), Field: []*descriptorpb.FieldDescriptorProto{st("text", 1), st("more", 2)}}},
	}
	out = append(out, &Program{
		Name:     "builtin/name_clash",
		Packages: []string{"use.v1"},
		Deps:     []*descriptorpb.FileDescriptorProto{jobs, kinds},
		Files: map[string]string{
			"use/v1/use.j5s": j5s(
				"package use.v1",
				"import clash.v1",
				"",
				"object User {",
				"  field userId ! key:id62",
				"  field status enum:clash.v1.Status {",
				"    rules.in = [\"ACTIVE\", \"DONE\"]",
				"  }",
				"  field detail object:clash.v1.Detail",
				"  field job object:clash.v1.Job",
				"  field local object:Item",
				"  field marker enum:Marker",
				"}",
			),
			"use/v1/item.proto": strings.Join([]string{
				"syntax = \"proto3\";",
				"package use.v1;",
				"message Box {",
				"  message Item { string inner = 1; }",
				"  enum Marker { MARKER_UNSPECIFIED = 0; MARKER_IN = 1; }",
				"  Item item = 1;",
				"  Marker marker = 2;",
				"}",
			}, "\n"),
			"use/v1/zitem.proto": strings.Join([]string{
				"syntax = \"proto3\";",
				"package use.v1;",
				"message Item { string outer = 1; string second = 2; }",
				"enum Marker { MARKER_UNSPECIFIED = 0; MARKER_A = 1; MARKER_B = 2; }",
			}, "\n"),
		},
	})

	// 6. ambiguous short names: two imported packages share the version-less alias ("bar"), both
	// export Thing, and a reference goes through the alias. Legal; resolved the same way every time.
	out = append(out, &Program{
		Name:     "builtin/alias_clash",
		Packages: []string{"baz.bar.v1", "foo.bar.v1", "local.v1"},
		Files: map[string]string{
			"foo/bar/v1/a.j5s": j5s("package foo.bar.v1", "", "object Thing {", "  field f1 string", "}", "", "enum Sort {", "  option UP", "  option DOWN", "}"),
			"baz/bar/v1/a.j5s": j5s("package baz.bar.v1", "", "object Thing {", "  field f2 string", "  field f3 integer:INT32", "}", "", "enum Sort {", "  option LEFT", "  option RIGHT", "  option MIDDLE", "}"),
			"local/v1/foo.j5s": j5s(
				"package local.v1",
				"import foo.bar.v1",
				"import baz.bar.v1",
				"",
				"object Foo {",
				"  field short object:bar.Thing",
				"  field sort enum:bar.Sort",
				"  field one object:foo.bar.v1.Thing",
				"  field two object:baz.bar.v1.Thing",
				"}",
			),
			"local/v1/zoo.j5s": j5s(
				"package local.v1",
				"import baz.bar.v1",
				"import foo.bar.v1",
				"",
				"object Zoo {",
				"  field short object:bar.Thing",
				"  field things array:object:bar.Thing",
				"  field foo object:Foo",
				"}",
			),
		},
	})

	// 7. equal-looking names: package names that are prefixes of each other (foo.v1 / foo.v10, and a
	// dependency foo.v100), the same type and file names in each of them.
	thing100 := &descriptorpb.FileDescriptorProto{
		Name: proto.String("foo/v100/thing.proto"), Syntax: proto.String("proto3"), Package: proto.String("foo.v100"),
		MessageType: []*descriptorpb.DescriptorProto{{Name: proto.String("Thing"), Field: []*descriptorpb.FieldDescriptorProto{st("hundred", 1)}}},
		EnumType:    []*descriptorpb.EnumDescriptorProto{enumOf("Level", "LEVEL")},
	}
	_ = thing100 // (a dependency foo.v100 next to local foo.v1 is a different, also legal, shape; not used here)
	out = append(out, &Program{
		Name:     "builtin/prefix_clash",
		Packages: []string{"foo.v1", "foo.v10", "use.v2"},
		Files: map[string]string{
			"foo/v1/thing.j5s":  j5s("package foo.v1", "", "object Thing {", "  field one string", "}", "", "enum Level {", "  option LOW", "  option HIGH", "}"),
			"foo/v10/thing.j5s": j5s("package foo.v10", "", "object Thing {", "  field ten string", "  field more integer:INT64", "}", "", "enum Level {", "  option A", "  option B", "  option C", "}"),
			"foo/v10/extra.proto": strings.Join([]string{
				"syntax = \"proto3\";", "package foo.v10;", "message Extra {", "  string e = 1;", "}",
			}, "\n"),
			"use/v2/use.j5s": j5s(
				"package use.v2",
				"import foo.v1",
				"import foo.v10",
				"",
				"object User {",
				"  field one object:foo.v1.Thing",
				"  field ten object:foo.v10.Thing",
				"  field extra object:foo.v10.Extra",
				"  field l1 enum:foo.v1.Level",
				"  field l10 enum:foo.v10.Level",
				"}",
			),
		},
	})

	// 8. source file names that share their first dot-separated part, each producing service and
	// topic sub-package files; a second package referring to both.
	svc := func(name, key string) []string {
		return []string{
			"topic " + name + "Events publish {",
			"  message " + name + "Happened {",
			"    field subject object:" + name,
			"  }",
			"}",
			"",
			"service " + name + " {",
			"  basePath = \"/shop/v1/" + strings.ToLower(name) + "\"",
			"",
			"  method Get" + name + " {",
			"    httpMethod = \"GET\"",
			"    httpPath = \"/:" + key + "\"",
			"",
			"    request {",
			"      field " + key + " key:uuid",
			"    }",
			"",
			"    response {",
			"      field result object:" + name,
			"    }",
			"  }",
			"}",
		}
	}
	out = append(out, &Program{
		Name:     "builtin/dotted_names",
		Packages: []string{"billing.v1", "shop.v1"},
		Files: map[string]string{
			"shop/v1/order.j5s":        j5s(append([]string{"package shop.v1", "", "object Order {", "  | An order placed by a customer.", "", "  field orderId key:uuid", "  field customer object:Customer", "}", ""}, svc("Order", "orderId")...)...),
			"shop/v1/order.refund.j5s": j5s(append([]string{"package shop.v1", "", "object Refund {", "  | Money going back.", "", "  field refundId key:uuid", "  field order object:Order", "}", ""}, svc("Refund", "refundId")...)...),
			"shop/v1/customer.j5s":     j5s("package shop.v1", "", "object Customer {", "  field name string", "}"),
			"billing/v1/invoice.j5s":   j5s("package billing.v1", "import shop.v1", "", "object Invoice {", "  field order object:shop.v1.Order", "  field refund object:shop.v1.Refund", "}"),
		},
	})

	// 9. references that are not package dependencies: an entity key with a bare foreign reference
	// (entity name only) to an entity that lives in a package the referring package does not
	// import; a third package imports both.
	ent := func(pkg, name string, extra ...string) string {
		lines := []string{"package " + pkg, "", "entity " + name + " {", "  key " + strings.ToLower(name) + "Id key:id62 {", "    primary = true", "  }"}
		lines = append(lines, extra...)
		lines = append(lines, "  data name string", "  status ACTIVE", "  status ARCHIVED", "  event Create {", "    field name string", "  }", "}")
		return j5s(lines...)
	}
	out = append(out, &Program{
		Name:     "builtin/foreign_refs",
		Packages: []string{"api.v1", "child.v1", "parent.v1"},
		Files: map[string]string{
			"parent/v1/parent.j5s": ent("parent.v1", "Parent"),
			"child/v1/child.j5s":   ent("child.v1", "Child", "  key parentId key:id62 {", "    foreign = parent", "  }"),
			"api/v1/api.j5s": j5s("package api.v1", "import child.v1", "import parent.v1", "", "object Family {",
				"  field child object:child.ChildState", "  field parent object:parent.ParentState", "}"),
		},
	})

	// 10. file-level options of hand-written protos: two protos of one package that disagree on
	// go_package / java options (legal: they are per-file options), next to a j5s file of the package.
	pf := func(pkg string, opts []string, body ...string) string {
		lines := []string{"syntax = \"proto3\";", "", "package " + pkg + ";", ""}
		lines = append(lines, opts...)
		lines = append(lines, "")
		lines = append(lines, body...)
		return strings.Join(lines, "\n") + "\n"
	}
	out = append(out, &Program{
		Name:     "builtin/file_options",
		Packages: []string{"shop.v1", "stock.v1"},
		Files: map[string]string{
			"shop/v1/legacy.proto": pf("shop.v1", []string{`option go_package = "github.com/example/monolith/gen/shop/v1/shop_pb";`, `option java_package = "com.example.monolith.shop";`, `option java_multiple_files = true;`},
				"message LegacyAddress {", "  string line_1 = 1;", "  string postcode = 2;", "}"),
			"shop/v1/money.proto": pf("shop.v1", []string{`option go_package = "github.com/example/shop/gen/shop/v1/shop_pb";`, `option java_package = "com.example.shop";`},
				"message Money {", "  string currency = 1;", "  int64 units = 2;", "}"),
			"shop/v1/zone.proto": pf("shop.v1", []string{`option go_package = "github.com/example/other/zone_pb";`, `option deprecated = true;`},
				"message Zone {", "  string code = 1;", "}"),
			"shop/v1/order.j5s":  j5s("package shop.v1", "", "object Order {", "  field orderId key:uuid", "  field total object:Money", "  field shipTo object:LegacyAddress", "  field zone object:Zone", "}"),
			"shop/v1/basket.j5s": j5s("package shop.v1", "", "object Basket {", "  field basketId key:uuid", "  field orders array:object:Order", "}"),
			"stock/v1/bin.proto": pf("stock.v1", []string{`option go_package = "github.com/example/shop/gen/stock/v1/stock_pb";`},
				"message Bin {", "  string aisle = 1;", "}"),
			"stock/v1/item.j5s": j5s("package stock.v1", "import shop.v1", "", "object Item {", "  field itemId key:uuid", "  field bin object:Bin", "  field price object:shop.v1.Money", "}"),
		},
	})

	// 11. an entity whose commands are split over several command blocks (each becomes a service),
	// next to an ordinary entity; a second package uses the state objects.
	method := func(key, name string) []string {
		return []string{"    method " + name + " {", "      httpMethod = \"POST\"", "      httpPath = \":" + key + "/" + strings.ToLower(name) + "\"", "      request {", "        field " + key + " key:id62", "        field note string", "      }",
			"      response {", "        field accepted bool", "      }", "    }"}
	}
	cat := func(parts ...[]string) []string {
		var l []string
		for _, p := range parts {
			l = append(l, p...)
		}
		return l
	}
	out = append(out, &Program{
		Name:     "builtin/multi_command",
		Packages: []string{"audit.v1", "shop.v1"},
		Files: map[string]string{
			"shop/v1/order.j5s": j5s(cat([]string{"package shop.v1", "", "entity Order {", "  key orderId key:id62 {", "    primary = true", "  }", "  data reference string", "  status OPEN", "  status CLOSED",
				"  event Placed {", "    field reference string", "  }", "  event Closed {", "  }", "  command {"}, method("orderId", "Place"),
				[]string{"  }", "  command Admin {", "    basePath = \"admin\""}, method("orderId", "Reopen"),
				[]string{"  }", "  command Warehouse {", "    basePath = \"wh\""}, method("orderId", "Pick"), method("orderId", "Pack"),
				[]string{"  }", "  command Billing {", "    basePath = \"billing\""}, method("orderId", "Charge"),
				[]string{"  }", "}"})...),
			"shop/v1/customer.j5s": j5s(cat([]string{"package shop.v1", "", "entity Customer {", "  key customerId key:id62 {", "    primary = true", "  }", "  data name string", "  status ACTIVE",
				"  event Registered {", "    field name string", "  }", "  command {"}, method("customerId", "Register"), method("customerId", "Rename"), []string{"  }", "}"})...),
			"audit/v1/entry.j5s": j5s("package audit.v1", "import shop.v1", "", "object Entry {", "  field entryId key:uuid", "  field order object:shop.v1.OrderState", "}"),
		},
	})

	// 12. a main-package object that has the name a service method's implicit request message gets
	// (GetOrderRequest), defined in another file than the service, and referenced from a third.
	out = append(out, &Program{
		Name:     "builtin/request_name_clash",
		Packages: []string{"shop.v1"},
		Files: map[string]string{
			"shop/v1/a_types.j5s":   j5s("package shop.v1", "", "object GetOrderRequest {", "  field note string", "}"),
			"shop/v1/m_service.j5s": j5s(append([]string{"package shop.v1", "", "object Order {", "  field orderId key:uuid", "}"}, svc("Order", "orderId")...)...),
			"shop/v1/z_user.j5s":    j5s("package shop.v1", "", "object Holder {", "  field req object:GetOrderRequest", "}"),
		},
	})

	// 13. hand-written protos that make the compiler WARN (an import that is not used, an enum
	// whose zero value is not *_UNSPECIFIED) in a package that another local package imports:
	// warnings are produced once, by whoever loads or links the file first.
	out = append(out, &Program{
		Name:     "builtin/proto_warnings",
		Packages: []string{"app.v1", "lib.v1", "top.v1"},
		Files: map[string]string{
			"lib/v1/lib.proto": pf("lib.v1", []string{`import "google/protobuf/timestamp.proto";`, `import "google/protobuf/duration.proto";`},
				"enum Colour {", "  RED = 0;", "  GREEN = 1;", "}", "", "message Lib {", "  string lib_id = 1;", "  Colour colour = 2;", "  google.protobuf.Duration ttl = 3;", "}"),
			"lib/v1/extra.j5s": j5s("package lib.v1", "", "object Extra {", "  field note string", "}"),
			"app/v1/app.j5s":   j5s("package app.v1", "import lib.v1", "", "object App {", "  field lib object:lib.v1.Lib", "  field extra object:lib.v1.Extra", "}"),
			"top/v1/top.j5s":   j5s("package top.v1", "import app.v1", "import lib.v1", "", "object Top {", "  field app object:app.v1.App", "  field lib object:lib.v1.Lib", "}"),
			"top/v1/plain.proto": pf("top.v1", []string{`import "lib/v1/lib.proto";`, `import "app/v1/app.j5s.proto";`},
				"message Plain {", "  lib.v1.Lib lib = 1;", "}"),
		},
	})

	// 14. a dependency (external) file that imports a LOCAL file - a dependency that was built
	// against a published copy of this bundle's own package - used by a local package that has
	// no reference of its own to that local package.
	depOnLocal := &descriptorpb.FileDescriptorProto{
		Name:       proto.String("other/v1/other.proto"),
		Syntax:     proto.String("proto3"),
		Package:    proto.String("other.v1"),
		Dependency: []string{"lib/v1/lib.j5s.proto"},
		MessageType: []*descriptorpb.DescriptorProto{{
			Name: proto.String("Other"),
			Field: []*descriptorpb.FieldDescriptorProto{{
				Name: proto.String("lib"), JsonName: proto.String("lib"), Number: proto.Int32(1),
				Label:    descriptorpb.FieldDescriptorProto_LABEL_OPTIONAL.Enum(),
				Type:     descriptorpb.FieldDescriptorProto_TYPE_MESSAGE.Enum(),
				TypeName: proto.String(".lib.v1.Lib"),
			}},
		}},
	}
	out = append(out, &Program{
		Name:     "builtin/dep_imports_local",
		Packages: []string{"app.v1", "lib.v1", "zed.v1"},
		Deps:     []*descriptorpb.FileDescriptorProto{depOnLocal},
		Files: map[string]string{
			"lib/v1/lib.j5s": j5s("package lib.v1", "", "object Lib {", "  field libId string", "}"),
			"app/v1/app.j5s": j5s("package app.v1", `import "other/v1/other.proto"`, "", "object App {", "  field other object:other.v1.Other", "}"),
			"zed/v1/zed.j5s": j5s("package zed.v1", "import app.v1", "", "object Zed {", "  field app object:app.v1.App", "}"),
		},
	})

	// 15. two j5s files of one package that refer to each other, one direction through a
	// sub-package file: the topic (and the service) generated from user.j5s use Zone of zone.j5s,
	// zone.j5s uses UserRef of user.j5s. The generated files form no import cycle
	// (topic/user.p.j5s.proto -> zone.j5s.proto -> user.j5s.proto); a third package imports Zone.
	out = append(out, &Program{
		Name:     "builtin/subpkg_backref",
		Packages: []string{"audit.v1", "users.v1"},
		Files: map[string]string{
			"users/v1/user.j5s": j5s("package users.v1", "", "object UserRef {", "  field userId string", "}", "",
				"topic UserNote publish {", "  message Moved {", "    field zone object:Zone", "  }", "}", "",
				"service UserZones {", "  basePath = \"/users/v1/zones\"", "  method GetZone {", "    httpMethod = \"GET\"", "    httpPath = \"/:userId\"",
				"    request {", "      field userId string", "    }", "    response {", "      field zone object:Zone", "    }", "  }", "}"),
			"users/v1/zone.j5s":  j5s("package users.v1", "", "object Zone {", "  field name string", "  field owner object:UserRef", "}"),
			"audit/v1/audit.j5s": j5s("package audit.v1", "import users.v1", "", "object Entry {", "  field zone object:users.v1.Zone", "}"),
		},
	})

	// 16. LARGE files: 70 and 130 root elements in one file (objects with and without descriptions,
	// enums, oneofs), where size-triggered code paths (batching, parallel printing, buffers that
	// grow) would kick in; a second package uses a few of them.
	big := func(pkg string, n int) string {
		lines := []string{"package " + pkg, ""}
		for i := 0; i < n; i++ {
			switch i % 5 {
			case 0:
				lines = append(lines, fmt.Sprintf("object Item%03d {", i), "  | Item number "+fmt.Sprint(i)+".", "", "  field itemId key:uuid", fmt.Sprintf("  field note%d string", i), "}", "")
			case 1:
				lines = append(lines, fmt.Sprintf("object Item%03d {", i), "  field name string", fmt.Sprintf("  field prev object:Item%03d", i-1), "}", "")
			case 2:
				lines = append(lines, fmt.Sprintf("enum Kind%03d {", i), "  option ALPHA", "  option BETA", "}", "")
			case 3:
				lines = append(lines, fmt.Sprintf("oneof Choice%03d {", i), "  | One of two.", "", fmt.Sprintf("  option first object:Item%03d", i-3), fmt.Sprintf("  option second object:Item%03d", i-2), "}", "")
			default:
				lines = append(lines, fmt.Sprintf("object Item%03d {", i), fmt.Sprintf("  field kind enum:Kind%03d", i-2), fmt.Sprintf("  field choice oneof:Choice%03d", i-1), "}", "")
			}
		}
		return j5s(lines...)
	}
	out = append(out, &Program{
		Name:     "builtin/many_elements",
		Packages: []string{"bulk.v1", "user.v1"},
		Files: map[string]string{
			"bulk/v1/seventy.j5s": big("bulk.v1", 70),
			"bulk/v1/more.j5s":    strings.ReplaceAll(strings.ReplaceAll(strings.ReplaceAll(big("bulk.v1", 130), "Item", "Part"), "Kind", "Sort"), "Choice", "Pick"),
			"user/v1/user.j5s":    j5s("package user.v1", "import bulk.v1", "", "object Holder {", "  field item object:bulk.v1.Item004", "  field part object:bulk.v1.Part129", "  field kind enum:bulk.v1.Kind002", "}"),
		},
	})

	// 17. a dependency package with a sub-package directory (ext/v1/service/...: package
	// ext.v1.service) next to its parent (ext.v1), both defining a message Filter; local files refer
	// to both, directly and through another local package.
	mkMsg := func(path, pkg string, deps []string, names ...string) *descriptorpb.FileDescriptorProto {
		f := &descriptorpb.FileDescriptorProto{Name: proto.String(path), Syntax: proto.String("proto3"), Package: proto.String(pkg), Dependency: deps}
		for _, n := range names {
			f.MessageType = append(f.MessageType, &descriptorpb.DescriptorProto{Name: proto.String(n), Field: []*descriptorpb.FieldDescriptorProto{{
				Name: proto.String("f1"), JsonName: proto.String("f1"), Number: proto.Int32(1),
				Type: descriptorpb.FieldDescriptorProto_TYPE_STRING.Enum(), Label: descriptorpb.FieldDescriptorProto_LABEL_OPTIONAL.Enum()}}})
		}
		return f
	}
	out = append(out, &Program{
		Name:     "builtin/dep_subpackage",
		Packages: []string{"shop.v1", "stock.v1"},
		Deps: []*descriptorpb.FileDescriptorProto{
			mkMsg("ext/v1/service/filter.proto", "ext.v1.service", nil, "Filter", "Cursor"),
			mkMsg("ext/v1/thing.proto", "ext.v1", nil, "Thing", "Filter"),
			mkMsg("ext/v1/topic/note.proto", "ext.v1.topic", []string{"ext/v1/thing.proto"}, "Note"),
		},
		Files: map[string]string{
			"shop/v1/query.j5s": j5s("package shop.v1", "import ext.v1", "import ext.v1.service", "", "object Query {", "  field filter object:ext.v1.service.Filter", "  field thing object:ext.v1.Thing", "  field plain object:ext.v1.Filter", "}"),
			"shop/v1/page.j5s":  j5s("package shop.v1", "import ext.v1.service", "", "object Page {", "  field cursor object:ext.v1.service.Cursor", "  field query object:Query", "}"),
			"stock/v1/item.j5s": j5s("package stock.v1", "import shop.v1", "import ext.v1.topic", "import ext.v1", "", "object Item {", "  field query object:shop.v1.Query", "  field note object:ext.v1.topic.Note", "  field filter object:ext.v1.Filter", "}"),
		},
	})

	// 18. the j5 types that need no import in j5s (j5.list.v1 paging, j5.state.v1 metadata through
	// an entity) in an ordinary bundle ...
	out = append(out, &Program{
		Name:     "builtin/implicit_j5_types",
		Packages: []string{"shop.v1"},
		Files: map[string]string{
			"shop/v1/orders.j5s": j5s("package shop.v1", "", "object OrderPage {", "  field request object:j5.list.v1.PageRequest", "  field response object:j5.list.v1.PageResponse", "  field query object:j5.list.v1.QueryRequest", "}"),
			"shop/v1/order.j5s":  ent("shop.v1", "Order"),
		},
	})
	// 19. ... and a bundle that carries its own (forked) copy of those j5 packages, the known files
	// forwarding with `import public` to the files the types were moved to: valid, and compiling it
	// must not change what any other bundle compiles to later in the same process.
	out = append(out, &Program{
		Name:     "builtin/vendored_j5",
		Packages: []string{"j5.list.v1", "j5.state.v1", "tool.v1"},
		Files: map[string]string{
			"j5/list/v1/page.proto":      pf("j5.list.v1", []string{`import public "j5/list/v1/query.proto";`}, "message PageResponse {", "  optional string next_token = 1;", "}"),
			"j5/list/v1/query.proto":     pf("j5.list.v1", nil, "message PageRequest {", "  optional string token = 1;", "}", "", "message QueryRequest {", "}"),
			"j5/state/v1/metadata.proto": pf("j5.state.v1", []string{`import public "j5/state/v1/state.proto";`}, "message EventMetadata {", "  string event_id = 1;", "}"),
			"j5/state/v1/state.proto":    pf("j5.state.v1", nil, "message StateMetadata {", "  uint64 last_sequence = 1;", "}"),
			"tool/v1/tool.j5s":           j5s("package tool.v1", "", "object Tool {", "  field request object:j5.list.v1.PageRequest", "  field state object:j5.state.v1.StateMetadata", "}"),
		},
	})

	// 20. hand-written protos whose elements carry several custom options that come from DIFFERENT
	// extension files and have the same index in their files ((j5.ext.v1.psm), (j5.list.v1.message)
	// and (buf.validate.message) are all the first extension of their file): an order that falls
	// back to the index has ties there.
	out = append(out, &Program{
		Name:     "builtin/option_index_ties",
		Packages: []string{"hand.v1"},
		Files: map[string]string{
			"hand/v1/hand.proto": pf("hand.v1", []string{`import "buf/validate/validate.proto";`, `import "j5/ext/v1/annotations.proto";`, `import "j5/list/v1/annotations.proto";`},
				"message Hand {", `  option (j5.ext.v1.psm) = {entity_name: "hand"};`, "  option (j5.list.v1.message) = {};", "  option (buf.validate.message) = {disabled: true};", "  string name = 1;", "}", "",
				"message Other {", "  option (buf.validate.message) = {disabled: true};", `  option (j5.ext.v1.psm) = {entity_name: "other"};`, "  string title = 1 [(buf.validate.field).string.min_len = 1, (j5.ext.v1.field).string = {}, (j5.list.v1.field).string.open_text.searching.searchable = true];", "}"),
			"hand/v1/user.j5s": j5s("package hand.v1", "", "object User {", "  field hand object:Hand", "  field other object:Other", "}"),
		},
	})

	// 21. sources with CRLF line endings (a checkout on another platform): one j5s file and one
	// hand-written proto of a two-package bundle.
	crlf := func(src string) string { return strings.ReplaceAll(src, "\n", "\r\n") }
	out = append(out, &Program{
		Name:     "builtin/crlf_sources",
		Packages: []string{"acct.v1", "bank.v1"},
		Files: map[string]string{
			"acct/v1/account.j5s":  crlf(j5s("package acct.v1", "", "object Account {", "  | An account.", "  | Second line.", "", "  field accountId key:uuid", "  field balance integer:INT64", "}", "", "enum Kind {", "  option CHECKING", "  option SAVINGS", "}")),
			"acct/v1/owner.j5s":    j5s("package acct.v1", "", "object Owner {", "  field name string", "  field account object:Account", "}"),
			"acct/v1/legacy.proto": crlf(pf("acct.v1", nil, "// An old message.", "message Legacy {", "  string code = 1;", "}")),
			"bank/v1/bank.j5s":     j5s("package bank.v1", "import acct.v1", "", "object Bank {", "  field accounts array:object:acct.v1.Account", "  field kind enum:acct.v1.Kind", "  field legacy object:acct.v1.Legacy", "}"),
		},
	})

	// 22. a bundle with ONE invalid package: foo.v1 refers to a dependency type by its full package
	// name without importing the package. It does not compile - and must not start to compile because
	// bar.v1, which imports the dependency properly, was compiled on the same set before.
	out = append(out, &Program{
		Name:     "builtin/missing_import",
		Packages: []string{"bar.v1", "both.v1", "foo.v1"},
		Deps:     []*descriptorpb.FileDescriptorProto{mkMsg("ext/v1/thing.proto", "ext.v1", nil, "Thing")},
		Files: map[string]string{
			"foo/v1/foo.j5s":   j5s("package foo.v1", "", "object Foo {", "  field thing object:ext.v1.Thing", "}"),
			"bar/v1/bar.j5s":   j5s("package bar.v1", "import ext.v1", "", "object Bar {", "  field thing object:ext.v1.Thing", "}"),
			"both/v1/both.j5s": j5s("package both.v1", "import bar.v1", "", "object Both {", "  field bar object:bar.v1.Bar", "}"),
		},
	})

	// 23. MANY dependency files: a dependency package of 300 small files, each imported (by path)
	// by one of two local hand-written protos, three of them by both: where a bounded cache starts
	// to evict and a batch limit is crossed.
	var manyDeps []*descriptorpb.FileDescriptorProto
	var imps1, imps2, flds1, flds2 []string
	for i := 0; i < 300; i++ {
		path := fmt.Sprintf("bulkdep/v1/t%03d.proto", i)
		manyDeps = append(manyDeps, mkMsg(path, "bulkdep.v1", nil, fmt.Sprintf("T%03d", i)))
		shared := i == 8 || i == 78 || i == 148 // imported by both local files
		if i%2 == 0 {
			imps1 = append(imps1, fmt.Sprintf(`import "%s";`, path))
			flds1 = append(flds1, fmt.Sprintf("  bulkdep.v1.T%03d f%d = %d;", i, i, i+1))
		}
		if i%2 == 1 || shared {
			imps2 = append(imps2, fmt.Sprintf(`import "%s";`, path))
			flds2 = append(flds2, fmt.Sprintf("  bulkdep.v1.T%03d f%d = %d;", i, i, i+1))
		}
	}
	out = append(out, &Program{
		Name:     "builtin/many_dependency_files",
		Packages: []string{"wide.v1"},
		Deps:     manyDeps,
		Files: map[string]string{
			"wide/v1/even.proto": pf("wide.v1", imps1, append(append([]string{"message Even {"}, flds1...), "}")...),
			"wide/v1/odd.proto":  pf("wide.v1", append(imps2, `import "wide/v1/even.proto";`), append(append([]string{"message Odd {"}, flds2...), "  Even even = 999;", "}")...),
			"wide/v1/user.j5s":   j5s("package wide.v1", "", "object User {", "  field even object:Even", "  field odd object:Odd", "}"),
		},
	})

	// 24. more packages that are invalid on purpose and must fail in every history: a bare type name
	// that only exists in two imported packages, and a type that exists nowhere.
	out = append(out, &Program{
		Name:     "builtin/invalid_references",
		Packages: []string{"money.v1", "nowhere.v1", "shop.v1", "tax.v1"},
		Files: map[string]string{
			"money/v1/money.j5s":     j5s("package money.v1", "", "object Amount {", "  field units integer:INT64", "}"),
			"tax/v1/tax.j5s":         j5s("package tax.v1", "", "object Amount {", "  field rate string", "}"),
			"shop/v1/shop.j5s":       j5s("package shop.v1", "import money.v1", "import tax.v1", "", "object Order {", "  field total object:Amount", "  field net object:money.v1.Amount", "  field tax object:tax.v1.Amount", "}"),
			"nowhere/v1/nowhere.j5s": j5s("package nowhere.v1", "import money.v1", "", "object Lost {", "  field what object:money.v1.Missing", "}"),
		},
	})
	return out
}
