package main

import (
	"sort"
	"strings"

	"google.golang.org/protobuf/types/descriptorpb"
)

// minimise shrinks a violating (program, execution) pair while the same
// violation class/form persists. Everything is single-goroutine and a pure
// function of (program, ExecCfg), so candidates are simply re-executed.
func minimise(orig *Program, rp *Replay) *Replay {
	key := rp.Violation.Key()
	p := orig.Clone()
	cfg := rp.Exec
	budget := 1500 // candidate executions

	fails := func(p *Program, cfg ExecCfg) (*Violation, *execState, bool) {
		if budget <= 0 {
			return nil, nil, false
		}
		budget--
		ref, err := computeReference(p)
		if err != nil {
			return nil, nil, false
		}
		v, ex := runExec(p, ref, cfg, nil)
		if v != nil && v.Key() == key {
			return v, ex, true
		}
		return nil, nil, false
	}

	v, ex, ok := fails(p, cfg)
	if !ok {
		rp.Note = "minimiser could not re-trigger the violation in-process; unminimised"
		return rp
	}

	// 1. history: truncate after the violating op, then drop ops one at a time
	if v.OpIndex+1 < len(cfg.Ops) {
		c := cfg
		c.Ops = append([]Op{}, cfg.Ops[:v.OpIndex+1]...)
		if v2, ex2, ok := fails(p, c); ok {
			cfg, v, ex = c, v2, ex2
		}
	}
	for changed := true; changed; {
		changed = false
		for i := len(cfg.Ops) - 1; i >= 0; i-- {
			if len(cfg.Ops) <= 1 {
				break
			}
			c := cfg
			c.Ops = append(append([]Op{}, cfg.Ops[:i]...), cfg.Ops[i+1:]...)
			if v2, ex2, ok := fails(p, c); ok {
				cfg, v, ex = c, v2, ex2
				changed = true
			}
		}
	}

	// 2. coarse switches
	for _, f := range []func(c *ExecCfg){
		func(c *ExecCfg) { c.PermListings = false },
		func(c *ExecCfg) { c.PermSites = false },
		func(c *ExecCfg) { c.SharedDeps = false },
		func(c *ExecCfg) { c.RealReader = false },
		func(c *ExecCfg) { c.RealDeps = false },
		func(c *ExecCfg) { c.SharedBytes = false },
		func(c *ExecCfg) { c.ListGenerated = false },
		func(c *ExecCfg) { c.OutHandling = 0 },
		func(c *ExecCfg) { c.OutHandling &^= 4 },
		func(c *ExecCfg) { c.OutHandling &^= 2 },
	} {
		c := cfg
		f(&c)
		if v2, ex2, ok := fails(p, c); ok {
			cfg, v, ex = c, v2, ex2
		}
	}

	// 3. iteration sites: force each site with a non-identity order back to identity
	for _, site := range appliedSites(ex.applied) {
		c := cfg
		c.MaskSites = append(append([]string{}, cfg.MaskSites...), site)
		if v2, ex2, ok := fails(p, c); ok {
			cfg, v, ex = c, v2, ex2
		}
	}
	// 4. individual decisions
	for _, a := range append([]Applied{}, ex.applied...) {
		c := cfg
		c.MaskDecisions = append(append([]string{}, cfg.MaskDecisions...), a.ID)
		if v2, ex2, ok := fails(p, c); ok {
			cfg, v, ex = c, v2, ex2
		}
	}

	// steps 5-7 feed each other (a file becomes droppable once the last reference to it is gone):
	// repeat them until nothing changes
	for round := 0; round < 3; round++ {
		before := p.Digest()
		// 5. program: drop whole files, dependency files, packages
		for changed := true; changed; {
			changed = false
			for _, name := range p.FileNames() {
				q := p.Clone()
				delete(q.Files, name)
				q.Packages = packagesWithFiles(q)
				if len(q.Packages) == 0 {
					continue
				}
				c := dropOpsFor(cfg, q)
				if v2, ex2, ok := fails(q, c); ok {
					p, cfg, v, ex = q, c, v2, ex2
					changed = true
				}
			}
			for i := range p.Deps {
				q := p.Clone()
				q.Deps = append(append([]*descriptorpb.FileDescriptorProto{}, q.Deps[:i]...), q.Deps[i+1:]...)
				if v2, ex2, ok := fails(q, cfg); ok {
					p, v, ex = q, v2, ex2
					changed = true
					break
				}
			}
		}

		// 6. program text: drop top-level blocks of j5s files
		for changed := true; changed; {
			changed = false
			for _, name := range p.FileNames() {
				if !strings.HasSuffix(name, ".j5s") {
					continue
				}
				blocks := splitTopLevel(p.Files[name])
				for i := len(blocks) - 1; i >= 1; i-- { // block 0 is the header (package/imports)
					q := p.Clone()
					nb := append(append([]string{}, blocks[:i]...), blocks[i+1:]...)
					q.Files[name] = strings.Join(nb, "")
					if v2, ex2, ok := fails(q, cfg); ok {
						p, v, ex = q, v2, ex2
						blocks = nb
						changed = true
					}
				}
			}
		}

		// 7. program text: drop single items (a field line, or a nested brace-balanced block) inside the
		// remaining blocks, innermost-last order; whatever no longer compiles is simply not kept
		for changed := true; changed && budget > 0; {
			changed = false
			for _, name := range p.FileNames() {
				if !strings.HasSuffix(name, ".j5s") {
					continue
				}
				items := nestedItems(p.Files[name])
				for k := len(items) - 1; k >= 0 && budget > 0; k-- {
					lines := strings.SplitAfter(p.Files[name], "\n")
					if items[k][1] > len(lines) {
						continue
					}
					q := p.Clone()
					q.Files[name] = strings.Join(lines[:items[k][0]], "") + strings.Join(lines[items[k][1]:], "")
					if v2, ex2, ok := fails(q, cfg); ok {
						p, v, ex = q, v2, ex2
						changed = true
						items = nestedItems(p.Files[name])
						if k > len(items) {
							k = len(items)
						}
					}
				}
			}
		}

		if p.Digest() == before {
			break
		}
	}

	out := *rp
	out.Program = p.ToJSON()
	out.Exec = cfg
	out.Violation = v
	out.Applied = ex.applied
	out.Minimised = true
	return &out
}

func packagesWithFiles(p *Program) []string {
	var out []string
	for _, pkg := range p.Packages {
		root := strings.ReplaceAll(pkg, ".", "/") + "/"
		for n := range p.Files {
			if strings.HasPrefix(n, root) && !strings.Contains(strings.TrimPrefix(n, root), "/") {
				out = append(out, pkg)
				break
			}
		}
	}
	sort.Strings(out)
	return out
}

func dropOpsFor(cfg ExecCfg, q *Program) ExecCfg {
	have := map[string]bool{}
	for _, p := range q.Packages {
		have[p] = true
	}
	c := cfg
	c.Ops = nil
	for _, o := range cfg.Ops {
		if o.Pkg != "" && !have[o.Pkg] {
			continue
		}
		if o.File != "" {
			if _, ok := q.Files[o.File]; !ok {
				continue
			}
		}
		c.Ops = append(c.Ops, o)
	}
	return c
}

// splitTopLevel cuts a j5s source into the header (everything before the first
// top-level block) and one string per top-level block (brace-balanced).
func splitTopLevel(src string) []string {
	lines := strings.SplitAfter(src, "\n")
	var blocks []string
	cur := ""
	depth := 0
	inHeader := true
	for _, ln := range lines {
		t := strings.TrimSpace(ln)
		startsBlock := depth == 0 && t != "" && !strings.HasPrefix(t, "package ") && !strings.HasPrefix(t, "import ") && !strings.HasPrefix(t, "//") && !strings.HasPrefix(t, "|")
		if startsBlock && (inHeader || cur != "") {
			blocks = append(blocks, cur)
			cur = ""
			inHeader = false
		}
		cur += ln
		if !strings.HasPrefix(t, "|") && !strings.HasPrefix(t, "//") {
			depth += strings.Count(ln, "{") - strings.Count(ln, "}")
		}
	}
	if cur != "" {
		blocks = append(blocks, cur)
	}
	return blocks
}

// nestedItems returns [start,end) line ranges of removable items at brace depth >= 1: a line that
// does not change the depth, or a block from its opening line to its closing line.
func nestedItems(src string) [][2]int {
	lines := strings.SplitAfter(src, "\n")
	var items [][2]int
	depth := 0
	var open []int
	for i, ln := range lines {
		t := strings.TrimSpace(ln)
		if t == "" || strings.HasPrefix(t, "package ") || strings.HasPrefix(t, "import ") {
			continue
		}
		d := 0
		if !strings.HasPrefix(t, "|") && !strings.HasPrefix(t, "//") {
			d = strings.Count(ln, "{") - strings.Count(ln, "}")
		}
		switch {
		case d == 0 && depth >= 1:
			items = append(items, [2]int{i, i + 1})
		case d > 0:
			open = append(open, i)
		case d < 0 && len(open) > 0:
			st := open[len(open)-1]
			open = open[:len(open)-1]
			if depth+d >= 1 { // nested block (not a top-level one: those are handled by step 6)
				items = append(items, [2]int{st, i + 1})
			}
		}
		depth += d
	}
	return items
}
