package main

import (
	"encoding/json"
	"fmt"
	"os"
	"os/exec"
	"regexp"
	"sort"
	"strings"

	"github.com/pentops/j5/internal/zzverif/simrt"
	"google.golang.org/protobuf/proto"
	"google.golang.org/protobuf/types/descriptorpb"
)

// A variant of a program is a second revision of the same bundle: most files are byte-identical,
// but something they resolve against has changed - a type moved to another file of its package,
// the values of an enum in a dependency or hand-written proto renumbered. Compiling the variant in
// a process that compiled the original before must give exactly what a fresh process gives: this
// is "independent of what else was compiled earlier in the same process" for the case that matters
// most in practice (an editor or build daemon recompiling after an edit), and it is what a
// process-wide cache keyed by file name or content hash gets wrong.

var topDecl = regexp.MustCompile(`^(object|enum|oneof)\s+([A-Za-z_][A-Za-z0-9_]*)`)

// variantOf returns the variant and a description, or nil if no edit applies.
func variantOf(p *Program, seed uint64) (*Program, string) {
	rng := simrt.NewRng(simrt.Derive(seed, 0x7a))
	edits := []func(*Program, *simrt.Rng) (*Program, string){moveTypeToNewFile, renumberDepEnum, renumberProtoEnum, sameLengthEdit, sameLengthEdit}
	for _, i := range rng.Perm(len(edits)) {
		if q, d := edits[i](p, rng); q != nil {
			q.Name = p.Name + "+variant"
			return q, d
		}
	}
	return nil, ""
}

// moveTypeToNewFile moves one top-level object/enum/oneof of a j5s file into a new file of the
// same package. The block must not mention another top-level type of its file and must not be
// mentioned by the rest of its file (so that no file-level import cycle can arise).
func moveTypeToNewFile(p *Program, rng *simrt.Rng) (*Program, string) {
	names := p.FileNames()
	for _, fi := range rng.Perm(len(names)) {
		name := names[fi]
		if !strings.HasSuffix(name, ".j5s") {
			continue
		}
		blocks := splitTopLevel(p.Files[name])
		if len(blocks) < 3 {
			continue
		}
		type decl struct {
			idx  int
			name string
		}
		var decls []decl
		for i := 1; i < len(blocks); i++ {
			first := strings.TrimSpace(strings.SplitN(strings.TrimLeft(blocks[i], "\n"), "\n", 2)[0])
			if m := topDecl.FindStringSubmatch(first); m != nil {
				decls = append(decls, decl{i, m[2]})
			}
		}
		for _, di := range rng.Perm(len(decls)) {
			d := decls[di]
			word := regexp.MustCompile(`\b` + regexp.QuoteMeta(d.name) + `\b`)
			clean := true
			for i := 1; i < len(blocks) && clean; i++ {
				if i == d.idx {
					for _, o := range decls {
						if o.idx != d.idx && regexp.MustCompile(`\b`+regexp.QuoteMeta(o.name)+`\b`).MatchString(blocks[i]) {
							clean = false
						}
					}
				} else if word.MatchString(blocks[i]) {
					clean = false
				}
			}
			if !clean {
				continue
			}
			q := p.Clone()
			dir := name[:strings.LastIndex(name, "/")]
			newName := dir + "/zzmoved.j5s"
			if _, exists := q.Files[newName]; exists {
				return nil, ""
			}
			var rest []string
			for i, b := range blocks {
				if i != d.idx {
					rest = append(rest, b)
				}
			}
			q.Files[name] = strings.Join(rest, "")
			q.Files[newName] = blocks[0] + "\n" + blocks[d.idx]
			return q, fmt.Sprintf("%s moved from %s to new file %s", d.name, name, newName)
		}
	}
	return nil, ""
}

var scalarField = regexp.MustCompile(`(?m)^(\s+field\s+[a-z][A-Za-z0-9]*\s+)(string|bool)(\s*)$`)

// sameLengthEdit changes one j5s file without changing its name or its LENGTH: a `string` field
// becomes `bool  ` (or the other way round). A cache keyed by file name, by name and size, or by
// name and modification time hands out the stale parse.
func sameLengthEdit(p *Program, rng *simrt.Rng) (*Program, string) {
	names := p.FileNames()
	for _, fi := range rng.Perm(len(names)) {
		name := names[fi]
		if !strings.HasSuffix(name, ".j5s") {
			continue
		}
		src := p.Files[name]
		locs := scalarField.FindAllStringSubmatchIndex(src, -1)
		if len(locs) == 0 {
			continue
		}
		m := locs[rng.Intn(len(locs))]
		old := src[m[4]:m[5]]
		repl := "bool  "
		if old == "bool" {
			// needs two spare characters after it: only when the line has trailing blanks
			if m[7]-m[6] < 2 {
				continue
			}
			repl = "string"
			q := p.Clone()
			q.Files[name] = src[:m[4]] + repl + src[m[6]+2:]
			return q, fmt.Sprintf("a bool field of %s became a string field (same file length)", name)
		}
		if m[7]-m[6] > 0 {
			continue // keep it simple: only lines without trailing blanks
		}
		q := p.Clone()
		q.Files[name] = src[:m[4]] + "bool" + src[m[5]:m[6]] + "  " + src[m[7]:]
		_ = repl
		if len(q.Files[name]) != len(src) {
			continue
		}
		return q, fmt.Sprintf("a string field of %s became a bool field, two blanks added at the end of its line (same file length)", name)
	}
	return nil, ""
}

// renumberDepEnum reverses the numbers of the non-zero values of one enum of a dependency file.
func renumberDepEnum(p *Program, rng *simrt.Rng) (*Program, string) {
	for _, di := range rng.Perm(len(p.Deps)) {
		for ei := range p.Deps[di].EnumType {
			if len(p.Deps[di].EnumType[ei].Value) < 3 {
				continue
			}
			q := p.Clone()
			e := q.Deps[di].EnumType[ei]
			n := int32(len(e.Value))
			for _, v := range e.Value[1:] {
				v.Number = proto.Int32(n - v.GetNumber())
			}
			sort.SliceStable(e.Value, func(i, j int) bool { return e.Value[i].GetNumber() < e.Value[j].GetNumber() })
			return q, fmt.Sprintf("values of enum %s in dependency %s renumbered", e.GetName(), q.Deps[di].GetName())
		}
	}
	return nil, ""
}

var protoEnumValue = regexp.MustCompile(`(?m)^(\s+[A-Z][A-Z0-9_]*\s*=\s*)([1-9][0-9]*)(;)`)

// renumberProtoEnum reverses the numbers of the non-zero values of the enums of one hand-written proto file.
func renumberProtoEnum(p *Program, rng *simrt.Rng) (*Program, string) {
	names := p.FileNames()
	for _, fi := range rng.Perm(len(names)) {
		name := names[fi]
		if !strings.HasSuffix(name, ".proto") || !strings.Contains(p.Files[name], "enum ") {
			continue
		}
		src := p.Files[name]
		maxN := 0
		for _, m := range protoEnumValue.FindAllStringSubmatch(src, -1) {
			var n int
			fmt.Sscan(m[2], &n)
			if n > maxN {
				maxN = n
			}
		}
		if maxN < 2 {
			continue
		}
		out := protoEnumValue.ReplaceAllStringFunc(src, func(s string) string {
			m := protoEnumValue.FindStringSubmatch(s)
			var n int
			fmt.Sscan(m[2], &n)
			return fmt.Sprintf("%s%d%s", m[1], maxN+1-n, m[3])
		})
		if out == src {
			continue
		}
		q := p.Clone()
		q.Files[name] = out
		return q, "enum values of " + name + " renumbered"
	}
	return nil, ""
}

var _ = descriptorpb.FieldDescriptorProto_TYPE_ENUM

// freshDigest computes the reference digest of a program in a fresh child process.
func freshDigest(p *Program) (string, error) {
	f, err := os.CreateTemp("", "c14prog*.json")
	if err != nil {
		return "", err
	}
	defer os.Remove(f.Name())
	b, _ := json.Marshal(p.ToJSON())
	f.Write(b)
	f.Close()
	out, err := exec.Command(os.Args[0], "-mode", "refdigest", "-file", f.Name()).Output()
	if err != nil {
		return "", fmt.Errorf("child process: %w", err)
	}
	var res struct {
		Digest string `json:"digest"`
		Err    string `json:"error"`
	}
	if err := json.Unmarshal(out, &res); err != nil {
		return "", err
	}
	if res.Err != "" {
		return "error:" + res.Err, nil
	}
	return res.Digest, nil
}

// inProcessDigest computes the reference digest of a program in this process.
func inProcessDigest(p *Program) string {
	ref, err := computeReference(p)
	if err != nil {
		return "error:" + truncate(err.Error(), 200)
	}
	return refDigest(p, ref)
}
