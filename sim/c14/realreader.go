package main

import (
	"context"
	"errors"
	"io/fs"
	"sort"
	"testing/fstest"

	"github.com/pentops/j5/gen/j5/config/v1/config_j5pb"
	"github.com/pentops/j5/gen/j5/source/v1/source_j5pb"
	"github.com/pentops/j5/internal/j5s/protobuild"
	"github.com/pentops/j5/internal/source"
)

// stubBundle lets the REAL protobuild.fileReader (the file source the CLI
// uses: fs.WalkDir + fs.ReadFile) run over an in-memory file system. The
// package list order of the bundle config is a seeded decision; directory
// listings come from fstest.MapFS, which sorts as the fs.FS contract demands.
type stubBundle struct {
	fsys fs.FS
	pkgs []string
}

func (b *stubBundle) DebugName() string { return "stub" }
func (b *stubBundle) DirInRepo() string { return "." }
func (b *stubBundle) FS() fs.FS         { return b.fsys }
func (b *stubBundle) J5Config() (*config_j5pb.BundleConfigFile, error) {
	cfg := &config_j5pb.BundleConfigFile{}
	for _, p := range b.pkgs {
		cfg.Packages = append(cfg.Packages, &config_j5pb.PackageConfig{Name: p})
	}
	return cfg, nil
}
func (b *stubBundle) SourceImage(context.Context, source.InputSource) (*source_j5pb.SourceImage, error) {
	return nil, errors.New("not used")
}
func (b *stubBundle) GetDependencies(context.Context, source.InputSource) (source.DependencySet, error) {
	return nil, errors.New("not used")
}

func realFileSource(p *Program, ex *execState) (protobuild.LocalFileSource, error) {
	m := fstest.MapFS{}
	for name, src := range p.Files {
		m[name] = &fstest.MapFile{Data: []byte(src)}
	}
	pk := append([]string{}, p.Packages...)
	sort.Strings(pk)
	pk = ex.permStrings("listing:packages", pk)
	return protobuild.NewBundleResolver(context.Background(), &stubBundle{fsys: m, pkgs: pk})
}
