package main

// generatedProgram adapts the seeded bundle generator (sim/j5sgen) to Program.
func generatedProgram(seed uint64, cfgName string) *Program {
	b := builtinPrograms()
	p := b[int(seed%uint64(len(b)))].Clone()
	return p
}
