package main

import (
	"fmt"

	"github.com/pentops/j5/internal/zzverif/j5sgen"
)

// generatedProgram adapts the seeded bundle generator (sim/j5sgen) to Program.
func generatedProgram(seed uint64, cfgName string) *Program {
	var cfg j5sgen.Config
	name := ""
	r := seed % 10
	switch cfgName {
	case "large":
		switch {
		case r < 3:
			cfg, name = j5sgen.SmallConfig(), "small"
		case r < 7:
			cfg, name = j5sgen.DefaultConfig(), "default"
		default:
			cfg, name = j5sgen.LargeConfig(), "large"
		}
	default:
		if r < 6 {
			cfg, name = j5sgen.SmallConfig(), "small"
		} else {
			cfg, name = j5sgen.DefaultConfig(), "default"
		}
	}
	b := j5sgen.Generate(seed, cfg)
	return &Program{
		Name:     fmt.Sprintf("j5sgen/%s/%d", name, seed),
		Packages: b.Packages,
		Files:    b.Files,
		Deps:     b.Deps,
		Features: b.Features,
	}
}
