package main

import (
	"context"
	"errors"
	"fmt"
	"io/fs"
	"runtime"
	"runtime/debug"
	"sort"
	"strings"
	"sync"

	"github.com/bufbuild/protocompile/linker"
	"github.com/pentops/j5/internal/j5s/protobuild"
	"github.com/pentops/j5/internal/j5s/protoprint"
	"github.com/pentops/j5/internal/zzverif/simrt"
	"google.golang.org/protobuf/proto"
	"google.golang.org/protobuf/reflect/protodesc"
	"google.golang.org/protobuf/reflect/protoreflect"
	"google.golang.org/protobuf/types/descriptorpb"
)

// ---------------------------------------------------------------- history

type Op struct {
	Kind string `json:"kind"` // new_ps | compile | load | lint_all | lint_file | compile_unknown | arm_read_fault
	PS   int    `json:"ps"`
	Pkg  string `json:"pkg,omitempty"`
	File string `json:"file,omitempty"`
	Nth  int    `json:"nth,omitempty"` // arm_read_fault: fail the Nth next read (1 = next)
}

func (o Op) String() string {
	s := fmt.Sprintf("%s(ps%d", o.Kind, o.PS)
	if o.Pkg != "" {
		s += "," + o.Pkg
	}
	if o.File != "" {
		s += "," + o.File
	}
	if o.Nth != 0 {
		s += fmt.Sprintf(",nth=%d", o.Nth)
	}
	return s + ")"
}

// ExecCfg fully determines one simulated execution of a program.
type ExecCfg struct {
	Seed          uint64   `json:"seed"`
	Mode          string   `json:"mode"` // perm_only | history | full | faults
	PermSites     bool     `json:"perm_sites"`
	PermListings  bool     `json:"perm_listings"`
	SharedDeps    bool     `json:"shared_deps"`
	ListGenerated bool     `json:"list_generated,omitempty"`      // the file source also lists (and serves) the committed *.j5s.proto outputs next to their sources
	RealReader    bool     `json:"real_file_reader,omitempty"`    // real protobuild.fileReader over an in-memory fs.FS (no read faults)
	RealDeps      bool     `json:"real_dependency_set,omitempty"` // the real internal/source.imageFiles (its map ranges are seeded by pass M) instead of the in-memory stand-in
	SharedBytes   bool     `json:"shared_source_bytes,omitempty"` // the file source hands out the very slice it stores (no copy), the same one to every PackageSet of the execution: a compiler that edits its input in place spoils later reads
	OutHandling   uint64   `json:"out_handling,omitempty"`        // 0: returned files are serialised and printed once, in order. Otherwise seeded: order, print-before-serialise (bit 0), everything twice (bit 1), re-examine held results at the end (bit 2)
	Ops           []Op     `json:"ops"`
	MaskSites     []string `json:"mask_sites,omitempty"`     // sites forced to identity order
	MaskDecisions []string `json:"mask_decisions,omitempty"` // individual decisions (site, collection content) forced to identity order
}

type Applied struct {
	ID   string `json:"id"` // hash of (site, size, collection content): identifies the decision independently of call order
	Site string `json:"site"`
	N    int    `json:"n"`
}

type execState struct {
	mu        sync.Mutex // the code under test may iterate from several goroutines
	cfg       ExecCfg
	maskSites map[string]bool
	maskDec   map[string]bool
	applied   []Applied // non-identity permutations actually applied
	seen      map[string]bool
	sig       uint64
	stats     *Stats

	sharedBytes map[string][]byte // file name -> the one slice every read of this execution gets (cfg.SharedBytes)
}

func newExecState(cfg ExecCfg, stats *Stats) *execState {
	e := &execState{cfg: cfg, maskSites: map[string]bool{}, maskDec: map[string]bool{}, seen: map[string]bool{}, stats: stats}
	for _, s := range cfg.MaskSites {
		e.maskSites[s] = true
	}
	for _, c := range cfg.MaskDecisions {
		e.maskDec[c] = true
	}
	return e
}

// perm is the single decision source of an execution: every iteration order
// (Go maps, protobuf containers, file/package/dependency listings) asks here.
// The permutation is a pure function of (execution seed, site, collection
// content), so it does not depend on how many iterations ran before or on
// which goroutine asks, and a replay reproduces it even if the code path
// around it changes.
func (e *execState) perm(site string, n int, content uint64) []int {
	listing := strings.HasPrefix(site, "listing:")
	if listing && !e.cfg.PermListings {
		return nil
	}
	if !listing && !e.cfg.PermSites {
		return nil
	}
	dh := simrt.Derive(simrt.HashString(site), uint64(n), content)
	id := fmt.Sprintf("%016x", dh)
	e.mu.Lock()
	defer e.mu.Unlock()
	if e.maskSites[site] || e.maskDec[id] {
		return nil
	}
	p := simrt.NewRng(simrt.Derive(e.cfg.Seed, dh)).Perm(n)
	if simrt.IsIdentity(p) {
		return nil
	}
	if !e.seen[id] {
		e.seen[id] = true
		e.applied = append(e.applied, Applied{id, site, n})
		e.sig ^= simrt.Derive(dh, e.cfg.Seed) // order-independent accumulation
	}
	if e.stats != nil {
		e.stats.SitePermuted[site]++
	}
	return p
}

func (e *execState) permStrings(site string, in []string) []string {
	p := e.perm(site, len(in), simrt.HashStrings(in))
	if p == nil {
		return in
	}
	out := make([]string, len(in))
	for i := range in {
		out[i] = in[p[i]]
	}
	return out
}

// ---------------------------------------------------------------- simulated file source

type memSource struct {
	mu        sync.Mutex        // the code under test may read files from several goroutines
	generated map[string]string // committed generator outputs (path -> text), listed when non-nil
	prog      *Program
	ex        *execState
	failNth   int // >0: the failNth-th next read fails (transient)
	faultSeen bool
	reads     int
}

var errTransient = errors.New("simulated transient read error")

func (m *memSource) GetLocalFile(_ context.Context, name string) ([]byte, error) {
	m.mu.Lock()
	defer m.mu.Unlock()
	m.reads++
	if m.failNth > 0 {
		m.failNth--
		if m.failNth == 0 {
			m.faultSeen = true
			if m.ex.stats != nil {
				m.ex.stats.Faults["transient_read_error"]++
			}
			return nil, errTransient
		}
	}
	src, ok := m.prog.Files[name]
	if !ok {
		if g, ok := m.generated[name]; ok {
			return []byte(g), nil
		}
		return nil, fmt.Errorf("%s: %w", name, fs.ErrNotExist)
	}
	if m.ex != nil && m.ex.cfg.SharedBytes {
		m.ex.mu.Lock()
		defer m.ex.mu.Unlock()
		if m.ex.sharedBytes == nil {
			m.ex.sharedBytes = map[string][]byte{}
		}
		b, ok := m.ex.sharedBytes[name]
		if !ok {
			b = []byte(src)
			m.ex.sharedBytes[name] = b
		}
		return b, nil
	}
	return []byte(src), nil
}

func (m *memSource) ListPackages() []string {
	pk := append([]string{}, m.prog.Packages...)
	sort.Strings(pk)
	return m.ex.permStrings("listing:packages", pk)
}

// ListSourceFiles mirrors protobuild.fileReader: every source file below the
// directory of the package (sub-directories included; the caller filters).
func (m *memSource) ListSourceFiles(_ context.Context, root string) ([]string, error) {
	root = strings.ReplaceAll(root, ".", "/")
	var files []string
	for _, n := range m.prog.FileNames() {
		if !strings.HasPrefix(n, root+"/") {
			continue
		}
		if strings.HasSuffix(n, ".j5s.proto") {
			continue
		}
		files = append(files, n)
	}
	if m.generated != nil {
		// a file source that does not filter generated files itself (the interface does not ask it
		// to; sourceResolver.listPackageFiles is there to drop them): repositories commit them
		var gen []string
		for n := range m.generated {
			if strings.HasPrefix(n, root+"/") {
				gen = append(gen, n)
			}
		}
		sort.Strings(gen)
		files = append(files, gen...)
		sort.Strings(files)
	}
	return m.ex.permStrings("listing:files:"+root, files), nil
}

type memDeps struct {
	files map[string]*descriptorpb.FileDescriptorProto
	ex    *execState
}

func newMemDeps(p *Program, ex *execState) *memDeps {
	d := &memDeps{files: map[string]*descriptorpb.FileDescriptorProto{}, ex: ex}
	for _, f := range p.Deps {
		d.files[f.GetName()] = proto.Clone(f).(*descriptorpb.FileDescriptorProto)
	}
	return d
}

func (d *memDeps) GetDependencyFile(name string) (*descriptorpb.FileDescriptorProto, error) {
	if f, ok := d.files[name]; ok {
		return f, nil
	}
	return nil, fmt.Errorf("could not find file %q", name)
}

func (d *memDeps) ListDependencyFiles(prefix string) []string {
	var names []string
	for n := range d.files {
		if strings.HasPrefix(n, prefix) {
			names = append(names, n)
		}
	}
	sort.Strings(names)
	return d.ex.permStrings("listing:deps:"+prefix, names)
}

// ---------------------------------------------------------------- outputs and oracle

type FileOut struct {
	Path string
	Desc []byte
	Text string
}

type psState struct {
	ps     *protobuild.PackageSet
	src    *memSource // nil when the real file reader is used
	deps   protobuild.DependencySet
	faulty bool // a fault was injected on this PackageSet
	linted bool // LoadLocalPackage / LintAll / LintFile ran on this PackageSet
}

type Violation struct {
	Class   string `json:"class"` // output_differs | order_dependent_error | panic | uncontrolled_nondeterminism
	Form    string `json:"form,omitempty"`
	OpIndex int    `json:"op_index"`
	Op      string `json:"op"`
	Pkg     string `json:"pkg,omitempty"`
	File    string `json:"file,omitempty"`
	Detail  string `json:"detail"`
}

func (v *Violation) Key() string { return v.Class + "/" + v.Form }

func compileOutputs(ctx context.Context, ps *protobuild.PackageSet, pkg string) (outs []FileOut, err error, panicked string) {
	outs, _, err, panicked = compileOutputsH(ctx, ps, pkg, 0)
	return
}

// compileOutputsH compiles and then examines the returned files the way the
// handling word says. What a caller does with the files it got back
// (serialise first or print first, in which order, once or twice) must not
// change what it sees.
func compileOutputsH(ctx context.Context, ps *protobuild.PackageSet, pkg string, h uint64) (outs []FileOut, files linker.Files, err error, panicked string) {
	defer func() {
		if r := recover(); r != nil {
			panicked = fmt.Sprintf("%v\n%s", r, debug.Stack())
		}
	}()
	files, err = ps.CompilePackage(ctx, pkg)
	if err != nil {
		return nil, nil, err, ""
	}
	outs, err = examineFiles(ctx, files, h)
	return outs, files, err, ""
}

type handlingError struct{ detail string }

func (e *handlingError) Error() string { return e.detail }

func examineFiles(ctx context.Context, files linker.Files, h uint64) ([]FileOut, error) {
	outs := make([]FileOut, len(files))
	order := make([]int, len(files))
	for i := range order {
		order[i] = i
	}
	if h != 0 && len(files) > 1 {
		rng := simrt.NewRng(simrt.Derive(h, 0x0a7, uint64(len(files))))
		order = rng.Perm(len(files))
	}
	one := func(f linker.File, printFirst bool) (FileOut, error) {
		fo := FileOut{Path: f.Path()}
		doPrint := func() error {
			if strings.HasSuffix(f.Path(), ".j5s.proto") {
				// what `j5 genproto` writes: printing must succeed
				text, err := protoprint.PrintFile(ctx, f, "")
				if err != nil {
					return fmt.Errorf("print %s: %w", f.Path(), err)
				}
				fo.Text = text
			} else {
				// hand-written files are printable too (the property speaks of printed .proto text in
				// general; custom options are dynamic messages there). A file the printer cannot handle
				// is recorded as such - that, too, must not vary.
				fo.Text = printLenient(ctx, f)
			}
			return nil
		}
		if printFirst {
			if err := doPrint(); err != nil {
				return fo, err
			}
		}
		fdp := protodesc.ToFileDescriptorProto(f)
		b, err := proto.MarshalOptions{Deterministic: true}.Marshal(fdp)
		if err != nil {
			return fo, fmt.Errorf("marshal %s: %w", f.Path(), err)
		}
		fo.Desc = b
		if !printFirst {
			if err := doPrint(); err != nil {
				return fo, err
			}
		}
		return fo, nil
	}
	for _, i := range order {
		fo, err := one(files[i], h&1 != 0)
		if err != nil {
			return nil, err
		}
		outs[i] = fo
	}
	if h&2 != 0 {
		// a second look at the same returned files, the other way round
		for k := len(order) - 1; k >= 0; k-- {
			i := order[k]
			fo, err := one(files[i], h&1 == 0)
			if err != nil {
				return nil, &handlingError{"second examination of the returned files: " + err.Error()}
			}
			if string(fo.Desc) != string(outs[i].Desc) {
				return nil, &handlingError{fmt.Sprintf("%s: descriptor changed between two examinations of the same returned file: %s", fo.Path, descDiff(outs[i].Desc, fo.Desc))}
			}
			if fo.Text != outs[i].Text {
				return nil, &handlingError{fmt.Sprintf("%s: printed text changed between two prints of the same returned file: %s", fo.Path, firstDiff(outs[i].Text, fo.Text))}
			}
		}
	}
	return outs, nil
}

func printLenient(ctx context.Context, f protoreflect.FileDescriptor) (text string) {
	defer func() {
		if r := recover(); r != nil {
			text = "<<printer panicked>>"
		}
	}()
	t, err := protoprint.PrintFile(ctx, f, "")
	if err != nil {
		return "<<printer error>>"
	}
	return t
}

func firstDiff(a, b string) string {
	al, bl := strings.Split(a, "\n"), strings.Split(b, "\n")
	for i := 0; i < len(al) || i < len(bl); i++ {
		var x, y string
		if i < len(al) {
			x = al[i]
		}
		if i < len(bl) {
			y = bl[i]
		}
		if x != y {
			return fmt.Sprintf("line %d: reference %q, this execution %q", i+1, x, y)
		}
	}
	return ""
}

func descDiff(a, b []byte) string {
	fa, fb := &descriptorpb.FileDescriptorProto{}, &descriptorpb.FileDescriptorProto{}
	_ = proto.Unmarshal(a, fa)
	_ = proto.Unmarshal(b, fb)
	sa, sb := fa.GetSourceCodeInfo(), fb.GetSourceCodeInfo()
	fa.SourceCodeInfo, fb.SourceCodeInfo = nil, nil
	if !proto.Equal(fa, fb) {
		return "descriptor (ignoring source info) differs: " + firstDiff(prototextish(fa), prototextish(fb))
	}
	if !proto.Equal(sa, sb) {
		return "only source_code_info differs: " + firstDiff(prototextish(sa), prototextish(sb))
	}
	return "wire bytes differ but messages are equal (field order / unknown fields)"
}

func compareOutputs(ref, got []FileOut) (form, file, detail string) {
	if len(ref) != len(got) {
		return "file_list", "", fmt.Sprintf("reference has %d files %v, execution has %d files %v", len(ref), paths(ref), len(got), paths(got))
	}
	for i := range ref {
		if ref[i].Path != got[i].Path {
			return "file_list", "", fmt.Sprintf("file %d: reference %s, execution %s", i, ref[i].Path, got[i].Path)
		}
	}
	for i := range ref {
		if string(ref[i].Desc) != string(got[i].Desc) {
			return "descriptor", ref[i].Path, descDiff(ref[i].Desc, got[i].Desc)
		}
	}
	for i := range ref {
		if ref[i].Text != got[i].Text {
			return "text", ref[i].Path, firstDiff(ref[i].Text, got[i].Text)
		}
	}
	return "", "", ""
}

func paths(o []FileOut) []string {
	var p []string
	for _, f := range o {
		p = append(p, f.Path)
	}
	return p
}

type Reference map[string][]FileOut

// reference: canonical listings, identity iteration order, one fresh
// PackageSet per package. A package whose canonical compile fails is part of
// the reference too (refErrKey): "compiles" versus "fails" is the coarsest
// output there is, and it must not depend on orders or history either.
func computeReference(p *Program) (Reference, error) {
	ref := Reference{}
	ctx := context.Background()
	okCount := 0
	var firstErr error
	for _, pkg := range p.Packages {
		ex := newExecState(ExecCfg{}, nil)
		simrt.SetPermHook(ex.perm)
		simrt.StartClock(0x5ef) // the reference has its own simulated date
		defer simrt.StopClock()
		ps, err := protobuild.NewPackageSet(newMemDeps(p, ex), &memSource{prog: p, ex: ex})
		if err != nil {
			return nil, err
		}
		outs, err, pan := compileOutputs(ctx, ps, pkg)
		simrt.SetPermHook(nil)
		if pan != "" {
			return nil, fmt.Errorf("reference panicked: %s", firstLine(pan))
		}
		if err != nil {
			if firstErr == nil {
				firstErr = fmt.Errorf("reference compile %s: %w", pkg, err)
			}
			ref[refErrKey(pkg)] = []FileOut{{Path: "<error>", Text: err.Error()}}
			continue
		}
		okCount++
		ref[pkg] = outs
	}
	// Even a program none of whose packages compiles canonically keeps its reference: every
	// package must then fail in every judged execution too (a permuted order that makes one of
	// them compile is an order_dependent_error like any other).
	_ = okCount
	_ = firstErr
	return ref, nil
}

func refErrKey(pkg string) string { return "\x00error:" + pkg }

// refFails reports whether the canonical compile of the package fails, and how.
func refFails(ref Reference, pkg string) (string, bool) {
	if e, ok := ref[refErrKey(pkg)]; ok && len(e) == 1 {
		return e[0].Text, true
	}
	return "", false
}

func firstLine(s string) string {
	if i := strings.IndexByte(s, '\n'); i >= 0 {
		return s[:i]
	}
	return s
}

// runExec performs one simulated execution and returns the first violation.
func runExec(p *Program, ref Reference, cfg ExecCfg, stats *Stats) (*Violation, *execState) {
	ex := newExecState(cfg, stats)
	simrt.SetPermHook(ex.perm)
	defer simrt.SetPermHook(nil)
	// should the code under test ever start goroutines (it does not today), their completion order
	// must not matter either: every execution gets a seeded degree of real parallelism
	prevProcs := runtime.GOMAXPROCS([]int{1, 2, 4, 8}[simrt.Derive(cfg.Seed, 0x9a)%4])
	defer runtime.GOMAXPROCS(prevProcs)
	simrt.StartClock(cfg.Seed) // every execution runs at its own simulated date and clock rate
	defer func() {
		if stats != nil {
			stats.Probes["simulated_clock_reads"] += simrt.ClockReads()
		}
		simrt.StopClock()
	}()
	ctx := context.Background()
	mkDeps := func() protobuild.DependencySet {
		if cfg.RealDeps && simrt.RealDependencySet != nil {
			var files []*descriptorpb.FileDescriptorProto
			for _, f := range p.Deps {
				files = append(files, proto.Clone(f).(*descriptorpb.FileDescriptorProto))
			}
			if d, err := simrt.RealDependencySet(files); err == nil {
				if stats != nil {
					stats.Probes["real_dependency_sets"]++
				}
				return d
			}
		}
		return newMemDeps(p, ex)
	}
	var sharedDeps protobuild.DependencySet
	if cfg.SharedDeps {
		sharedDeps = mkDeps()
	}
	sets := map[int]*psState{}
	getPS := func(i int) (*psState, error) {
		if s, ok := sets[i]; ok {
			return s, nil
		}
		src := &memSource{prog: p, ex: ex}
		if cfg.ListGenerated {
			src.generated = map[string]string{}
			for _, outs := range ref {
				for _, f := range outs {
					if strings.HasSuffix(f.Path, ".j5s.proto") && !strings.HasPrefix(f.Text, "<<") {
						src.generated[f.Path] = f.Text
					}
				}
			}
			if stats != nil {
				stats.Probes["sets_listing_committed_generated_files"]++
			}
		}
		deps := sharedDeps
		if deps == nil {
			deps = mkDeps()
		}
		var lfs protobuild.LocalFileSource = src
		if cfg.RealReader {
			real, err := realFileSource(p, ex)
			if err != nil {
				return nil, err
			}
			lfs = real
			if stats != nil {
				stats.Probes["real_file_reader_sets"]++
			}
		}
		ps, err := protobuild.NewPackageSet(deps, lfs)
		if err != nil {
			return nil, err
		}
		s := &psState{ps: ps, src: src, deps: deps}
		sets[i] = s
		return s, nil
	}
	compiledOn := map[int]int{}
	type heldOut struct {
		i     int
		op    Op
		s     *psState
		files linker.Files
	}
	var held []heldOut
	for i, op := range cfg.Ops {
		if op.Kind == "new_ps" {
			delete(sets, op.PS)
			delete(compiledOn, op.PS)
			continue
		}
		s, err := getPS(op.PS)
		if err != nil {
			return &Violation{Class: "order_dependent_error", OpIndex: i, Op: op.String(), Detail: "NewPackageSet: " + err.Error()}, ex
		}
		switch op.Kind {
		case "compile":
			if stats != nil {
				if compiledOn[op.PS] > 0 {
					stats.Probes["reused_packageset_compile"]++
				}
				if s.faulty {
					stats.Probes["compile_after_failed_op"]++
				}
			}
			var hh uint64
			if cfg.OutHandling != 0 {
				hh = simrt.Derive(cfg.OutHandling, uint64(i))&^7 | cfg.OutHandling&7
				if stats != nil {
					stats.Probes["compiles_with_seeded_output_handling"]++
				}
			}
			outs, files, err, pan := compileOutputsH(ctx, s.ps, op.Pkg, hh)
			if s.src.faultSeen {
				s.faulty = true
			}
			compiledOn[op.PS]++
			if refText, fails := refFails(ref, op.Pkg); fails {
				// the canonical compile of this package fails: so must this one, unless the set
				// met a fault or a lint/load call before (outside the quantifier, as below)
				if err == nil && pan == "" && !s.faulty && !s.linted {
					return &Violation{Class: "order_dependent_error", Form: "reference_fails", OpIndex: i, Op: op.String(), Pkg: op.Pkg,
						Detail: "on a fresh PackageSet, under the canonical listing, this package fails with: " + truncate(refText, 400) + "\nin this execution the very same sources compile"}, ex
				}
				if stats != nil {
					stats.Probes["compiles_of_packages_whose_reference_fails"]++
				}
				continue
			}
			if pan != "" {
				if s.faulty || s.linted {
					if stats != nil {
						stats.Probes["tolerated_panic_after_fault"]++
					}
					continue
				}
				return &Violation{Class: "panic", OpIndex: i, Op: op.String(), Pkg: op.Pkg, Detail: pan}, ex
			}
			if err != nil {
				if s.faulty {
					if stats != nil {
						stats.Probes["tolerated_error_after_fault"]++
					}
					continue
				}
				if s.linted {
					// The property quantifies over orders of CompilePackage calls and
					// fresh/reused sets; lint/load calls in between are an extension of
					// this harness. An error after them is recorded, not judged; a
					// successful output is still compared.
					if stats != nil {
						stats.Probes["tolerated_error_after_lint"]++
					}
					continue
				}
				if he, ok := err.(*handlingError); ok {
					return &Violation{Class: "output_differs", Form: "reexamined", OpIndex: i, Op: op.String(), Pkg: op.Pkg, Detail: he.detail}, ex
				}
				return &Violation{Class: "order_dependent_error", OpIndex: i, Op: op.String(), Pkg: op.Pkg, Detail: err.Error()}, ex
			}
			if cfg.OutHandling&4 != 0 && !s.faulty && !s.linted {
				held = append(held, heldOut{i, op, s, files})
			}
			if form, file, detail := compareOutputs(ref[op.Pkg], outs); form != "" {
				return &Violation{Class: "output_differs", Form: form, OpIndex: i, Op: op.String(), Pkg: op.Pkg, File: file, Detail: detail}, ex
			}
			if stats != nil {
				stats.ComparedCompiles++
			}
		case "compile_unknown":
			_, err, _ := compileOutputs(ctx, s.ps, "zz.unknown.v9")
			if err != nil {
				s.faulty = true
				if stats != nil {
					stats.Faults["unknown_package"]++
				}
			}
		case "arm_read_fault":
			s.src.failNth = op.Nth
		case "load":
			s.linted = true
			func() {
				defer func() {
					if r := recover(); r != nil {
						s.faulty = true
					}
				}()
				_, _, err := s.ps.LoadLocalPackage(ctx, op.Pkg)
				if err != nil && s.src.faultSeen {
					s.faulty = true
				}
				if stats != nil {
					stats.Probes["load_before_compile"]++
				}
			}()
		case "lint_all":
			s.linted = true
			func() {
				defer func() {
					if r := recover(); r != nil {
						s.faulty = true
					}
				}()
				_, err := protobuild.LintAll(ctx, s.ps)
				if err != nil && s.src.faultSeen {
					s.faulty = true
				}
				if stats != nil {
					stats.Probes["lint_all"]++
				}
			}()
		case "lint_file":
			s.linted = true
			func() {
				defer func() {
					if r := recover(); r != nil {
						s.faulty = true
					}
				}()
				// what an editor sends: the stored content, or (every other time) an unsaved buffer with
				// one more definition in it - linting a buffer must not change what the set compiles
				buf := p.Files[op.File]
				if (simrt.Derive(cfg.Seed, uint64(i), 0x11e7)&1) == 1 && strings.HasSuffix(op.File, ".j5s") {
					buf += "\nobject ZzUnsavedEdit {\n  field note string\n}\n"
					if stats != nil {
						stats.Probes["lint_file_with_unsaved_buffer"]++
					}
				}
				_, err := protobuild.LintFile(ctx, s.ps, op.File, buf)
				if err != nil && s.src.faultSeen {
					s.faulty = true
				}
				if stats != nil {
					stats.Probes["lint_file"]++
				}
			}()
		}
		if s.src.faultSeen {
			s.faulty = true
		}
	}
	// results a caller kept: later calls on the same set (or anything else in the process) must not
	// have changed them
	for _, h := range held {
		if h.s.faulty || h.s.linted {
			continue
		}
		var outs []FileOut
		var err error
		pan := ""
		func() {
			defer func() {
				if r := recover(); r != nil {
					pan = fmt.Sprintf("%v", r)
				}
			}()
			outs, err = examineFiles(ctx, h.files, 0)
		}()
		if stats != nil {
			stats.Probes["held_results_reexamined"]++
		}
		if pan != "" || err != nil {
			return &Violation{Class: "output_differs", Form: "held_result", OpIndex: h.i, Op: h.op.String(), Pkg: h.op.Pkg, Detail: fmt.Sprintf("a result that was fine when returned can no longer be examined at the end of the history: %v %s", err, firstLine(pan))}, ex
		}
		if form, file, detail := compareOutputs(ref[h.op.Pkg], outs); form != "" {
			return &Violation{Class: "output_differs", Form: "held_result_" + form, OpIndex: h.i, Op: h.op.String(), Pkg: h.op.Pkg, File: file, Detail: "a result that was correct when returned differs at the end of the history: " + detail}, ex
		}
	}
	return nil, ex
}

// genOps draws a history for an execution.
func genOps(p *Program, mode string, rng *simrt.Rng) []Op {
	pkgs := append([]string{}, p.Packages...)
	sort.Strings(pkgs)
	var ops []Op
	if mode == "perm_only" {
		// the reference history: one fresh PackageSet per package
		for i, pkg := range pkgs {
			ops = append(ops, Op{Kind: "new_ps", PS: i}, Op{Kind: "compile", PS: i, Pkg: pkg})
		}
		return ops
	}
	j5files := []string{}
	for _, n := range p.FileNames() {
		j5files = append(j5files, n)
	}
	nPS := 1 + rng.Intn(2)
	n := 3 + rng.Intn(10)
	// genproto's own history (all packages on one set, in listing order) is the most common real one
	if rng.Bool(0.3) {
		order := rng.Perm(len(pkgs))
		for _, i := range order {
			ops = append(ops, Op{Kind: "compile", PS: 0, Pkg: pkgs[i]})
		}
	}
	for len(ops) < n {
		ps := rng.Intn(nPS)
		r := rng.Float64()
		switch {
		case r < 0.55:
			ops = append(ops, Op{Kind: "compile", PS: ps, Pkg: pkgs[rng.Intn(len(pkgs))]})
		case r < 0.65:
			ops = append(ops, Op{Kind: "load", PS: ps, Pkg: pkgs[rng.Intn(len(pkgs))]})
		case r < 0.73:
			ops = append(ops, Op{Kind: "lint_all", PS: ps})
		case r < 0.83:
			ops = append(ops, Op{Kind: "lint_file", PS: ps, File: j5files[rng.Intn(len(j5files))]})
		case r < 0.88:
			ops = append(ops, Op{Kind: "new_ps", PS: ps})
		default:
			if mode == "faults" {
				if rng.Bool(0.5) {
					ops = append(ops, Op{Kind: "compile_unknown", PS: ps})
				} else {
					ops = append(ops, Op{Kind: "arm_read_fault", PS: ps, Nth: 1 + rng.Intn(4)})
				}
			} else {
				ops = append(ops, Op{Kind: "compile", PS: ps, Pkg: pkgs[rng.Intn(len(pkgs))]})
			}
		}
	}
	// always end with a compile of every package on set 0 so that whatever
	// state the history built up is observed
	for _, i := range rng.Perm(len(pkgs)) {
		ops = append(ops, Op{Kind: "compile", PS: 0, Pkg: pkgs[i]})
	}
	return ops
}

func genExecCfg(p *Program, seed uint64) ExecCfg {
	rng := simrt.NewRng(simrt.Derive(seed, 0xc14))
	cfg := ExecCfg{Seed: seed}
	switch r := rng.Float64(); {
	case r < 0.25:
		cfg.Mode = "perm_only"
		cfg.PermSites, cfg.PermListings = true, rng.Bool(0.5)
	case r < 0.45:
		cfg.Mode = "history"
	case r < 0.80:
		cfg.Mode = "full"
		cfg.PermSites, cfg.PermListings = true, true
	default:
		cfg.Mode = "faults"
		cfg.PermSites, cfg.PermListings = rng.Bool(0.7), rng.Bool(0.7)
	}
	cfg.SharedDeps = rng.Bool(0.3)
	cfg.RealReader = rng.Bool(0.2)
	cfg.RealDeps = len(p.Deps) > 0 && rng.Bool(0.3)
	cfg.SharedBytes = !cfg.RealReader && rng.Bool(0.3)
	cfg.ListGenerated = !cfg.RealReader && rng.Bool(0.2)
	cfg.Ops = genOps(p, cfg.Mode, rng)
	if rng.Bool(0.4) {
		cfg.OutHandling = rng.Uint64() | 8
	}
	return cfg
}
