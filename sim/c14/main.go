// zzverif_c14: deterministic-simulation harness for property C14
// (compilation and printing are deterministic). Built inside a scratch copy of
// github.com/pentops/j5 that tools/simrewrite has instrumented (pass M).
package main

import (
	"context"
	"crypto/sha256"
	"encoding/hex"
	"encoding/json"
	"flag"
	"fmt"
	"io"
	"io/fs"
	stdlog "log"
	"os"
	"os/exec"
	"path/filepath"
	"runtime/debug"
	"sort"
	"strings"
	"time"

	"github.com/pentops/j5/internal/j5s/protobuild"
	"github.com/pentops/j5/internal/zzverif/simrt"
	"github.com/pentops/log.go/log"
	"google.golang.org/protobuf/encoding/prototext"
	"google.golang.org/protobuf/proto"
)

var _ = rewriteGoStmts + rewriteUnmodelled

func prototextish(m proto.Message) string {
	if m == nil {
		return ""
	}
	return prototext.MarshalOptions{Multiline: true}.Format(m)
}

type Stats struct {
	Programs          int            `json:"programs"`
	ProgramsDiscarded int            `json:"programs_discarded"`
	DiscardReasons    map[string]int `json:"discard_reasons"`
	Executions        int            `json:"executions"`
	NonTrivial        int            `json:"nontrivial"`
	ComparedCompiles  int            `json:"compared_compiles"`
	ByMode            map[string]int `json:"by_mode"`
	SitePermuted      map[string]int `json:"site_permuted"`
	Faults            map[string]int `json:"faults"`
	Probes            map[string]int `json:"probes"`
	Features          map[string]int `json:"features"`
	Ops               int            `json:"ops"`
}

func newStats() *Stats {
	return &Stats{DiscardReasons: map[string]int{}, ByMode: map[string]int{}, SitePermuted: map[string]int{}, Faults: map[string]int{}, Probes: map[string]int{}, Features: map[string]int{}}
}

type Replay struct {
	Property   string       `json:"property"`
	MasterSeed uint64       `json:"master_seed"`
	ProgIndex  int          `json:"program_index"`
	ExecIndex  int          `json:"exec_index"`
	Program    *ProgramJSON `json:"program"`
	Exec       ExecCfg      `json:"exec"`
	Violation  *Violation   `json:"violation"`
	Applied    []Applied    `json:"applied_nonidentity_orders"`
	Minimised  bool         `json:"minimised"`
	FindingKey string       `json:"finding_key"`
	History    *HistoryCase `json:"history_case,omitempty"`
	Note       string       `json:"note,omitempty"`
}

// HistoryCase describes a process_history_dependence violation: the reference outputs of program
// Index differ between a process that compiles it first and one that compiled Order before it.
type HistoryCase struct {
	Index   int    `json:"index"`
	Order   []int  `json:"order"` // program indices compiled earlier in the same process, then Index
	GenCfg  string `json:"gen"`
	Fresh   string `json:"fresh_digest"`
	History string `json:"history_digest"`
	// explicit form (variant check): compile Before, then Target, in one process
	Before *ProgramJSON `json:"before,omitempty"`
	Target *ProgramJSON `json:"target,omitempty"`
	Edit   string       `json:"edit,omitempty"`
	// environment_dependence: Index compiled alone, in a fresh process, with these variables set
	// (and another working directory) against the same in the default environment
	Env map[string]string `json:"env,omitempty"`
	// process_crash: a process compiling Order one after the other died with a Go fatal error
	Crash bool `json:"crash,omitempty"`
}

func replayHistory(rp *Replay) int {
	hc := rp.History
	if hc == nil {
		fmt.Println("REPLAY: malformed file (no history case)")
		return 2
	}
	if hc.Target != nil {
		before, err1 := hc.Before.ToProgram()
		target, err2 := hc.Target.ToProgram()
		if err1 != nil || err2 != nil {
			fmt.Println("REPLAY: malformed programs")
			return 2
		}
		fresh, err := freshDigest(target)
		if err != nil {
			fmt.Println("REPLAY:", err)
			return 2
		}
		inProcessDigest(before)
		after := inProcessDigest(target)
		if after != fresh {
			fmt.Printf("REPLAY: violation class=process_history_dependence: the edited bundle (%s) compiles to %s in a fresh process but to %s in a process that compiled the original bundle first\n", hc.Edit, fresh, after)
			return 1
		}
		fmt.Println("REPLAY: no violation (the edited bundle compiles identically with and without the earlier compilation)")
		return 0
	}
	if hc.Crash {
		// repeat the list up to 48 times, 16 processes at a time: the crash needs two goroutines of
		// the code under test to overlap physically
		var idx []string
		for _, i := range hc.Order {
			idx = append(idx, fmt.Sprint(i))
		}
		total := 0
		for batch := 0; batch < 3; batch++ {
			type res struct {
				err    error
				stderr string
			}
			ch := make(chan res, 16)
			for k := 0; k < 16; k++ {
				go func() {
					cmd := exec.Command(os.Args[0], "-mode", "refdigest", "-seed", fmt.Sprint(rp.MasterSeed), "-gen", hc.GenCfg, "-indices", strings.Join(idx, ","))
					cmd.Env = append(os.Environ(), "GOMAXPROCS=16")
					var eb strings.Builder
					cmd.Stderr = &eb
					err := cmd.Run()
					ch <- res{err, eb.String()}
				}()
			}
			hits := 0
			first := ""
			for k := 0; k < 16; k++ {
				r := <-ch
				total++
				if r.err != nil && strings.Contains(r.stderr, "fatal error:") {
					hits++
					for _, l := range strings.Split(r.stderr, "\n") {
						if strings.HasPrefix(l, "fatal error:") && first == "" {
							first = l
						}
					}
				}
			}
			if hits > 0 {
				fmt.Printf("REPLAY: violation class=process_crash: a process compiling programs %v one after the other died in %d of %d repetitions: %s\n", hc.Order, hits, total, first)
				return 1
			}
		}
		fmt.Printf("REPLAY: no violation (no crash in %d repetitions)\n", total)
		return 0
	}
	// fresh digest from the current tree: a child process that compiles only the target
	childDigest := func(env map[string]string) (string, error) {
		cmd := exec.Command(os.Args[0], "-mode", "refdigest", "-seed", fmt.Sprint(rp.MasterSeed), "-gen", hc.GenCfg, "-indices", fmt.Sprint(hc.Index))
		if env != nil {
			cmd.Env = os.Environ()
			for k, v := range env {
				cmd.Env = append(cmd.Env, k+"="+v)
			}
			if dir, err := os.MkdirTemp("", "c14env"); err == nil {
				defer os.RemoveAll(dir)
				cmd.Dir = dir
				cmd.Env = append(cmd.Env, "TMPDIR="+dir)
			}
		}
		outb, err := cmd.Output()
		if err != nil {
			return "", err
		}
		var child struct {
			RefDigests map[string]string `json:"ref_digests"`
		}
		if err := json.Unmarshal(outb, &child); err != nil {
			return "", err
		}
		return child.RefDigests[fmt.Sprint(hc.Index)], nil
	}
	fresh, err := childDigest(nil)
	if err != nil {
		fmt.Println("REPLAY: child process failed:", err)
		return 2
	}
	if hc.Env != nil {
		other, err := childDigest(hc.Env)
		if err != nil {
			fmt.Println("REPLAY: child process failed:", err)
			return 2
		}
		if other != fresh {
			fmt.Printf("REPLAY: violation class=environment_dependence: program %d, compiled alone in a fresh process, gives %s in the default environment and %s with %v\n", hc.Index, fresh, other, hc.Env)
			return 1
		}
		fmt.Println("REPLAY: no violation (same outputs in both environments)")
		return 0
	}
	var last string
	for _, idx := range hc.Order {
		p := programFor(rp.MasterSeed, idx, hc.GenCfg)
		ref, err := computeReference(p)
		if err != nil {
			last = "error"
			continue
		}
		last = refDigest(p, ref)
	}
	if last != fresh {
		fmt.Printf("REPLAY: violation class=process_history_dependence: program %d compiles to %s in a fresh process but to %s after programs %v were compiled in the same process\n", hc.Index, fresh, last, hc.Order[:len(hc.Order)-1])
		return 1
	}
	fmt.Println("REPLAY: no violation (same outputs with and without the earlier compilations)")
	return 0
}

type Sample struct {
	Program  string   `json:"program"`
	Files    []string `json:"files"`
	Mode     string   `json:"mode"`
	Ops      []string `json:"ops"`
	Permuted []string `json:"permuted_sites"`
}

type WorkerResult struct {
	Worker     int       `json:"worker"`
	Stats      *Stats    `json:"stats"`
	Sigs       []uint64  `json:"nontrivial_sigs"`
	Violations []*Replay `json:"violations"`
	Samples    []Sample  `json:"samples"`
	FirstIndex int       `json:"first_index"`
	LastIndex  int       `json:"last_index"`
	WallS      float64   `json:"wall_s"`
	DetLog     []string  `json:"det_log,omitempty"`
	// RefDigests: program index -> digest of the reference outputs, as computed in this
	// process after whatever it compiled before (cross-process history check)
	RefDigests map[string]string `json:"ref_digests,omitempty"`
}

func refDigest(p *Program, ref Reference) string {
	h := sha256.New()
	for _, pkg := range p.Packages {
		if t, fails := refFails(ref, pkg); fails {
			fmt.Fprintf(h, "fails:%s\x00%s\x00", pkg, t)
		}
		for _, f := range ref[pkg] {
			fmt.Fprintf(h, "%s\x00%d\x00", f.Path, len(f.Desc))
			h.Write(f.Desc)
			h.Write([]byte(f.Text))
		}
	}
	return hex.EncodeToString(h.Sum(nil))[:20]
}

func opsStrings(ops []Op) []string {
	var s []string
	for _, o := range ops {
		s = append(s, o.String())
	}
	return s
}

func execSig(p *Program, cfg ExecCfg, ex *execState) uint64 {
	h := simrt.HashString(p.Digest())
	for _, o := range cfg.Ops {
		h = (h ^ simrt.HashString(o.String())) * 1099511628211
	}
	if cfg.RealReader {
		h = (h ^ 0x5ea1) * 1099511628211
	}
	if cfg.ListGenerated {
		h = (h ^ 0x11d6) * 1099511628211
	}
	if cfg.RealDeps {
		h = (h ^ 0x4ea1d) * 1099511628211
	}
	if cfg.SharedBytes {
		h = (h ^ 0x5b17e5) * 1099511628211
	}
	if cfg.OutHandling != 0 {
		h = (h ^ cfg.OutHandling) * 1099511628211
	}
	return (h ^ ex.sig) * 1099511628211
}

func nonTrivial(p *Program, cfg ExecCfg, ex *execState) bool {
	if len(ex.applied) > 0 {
		return true
	}
	// history differs from the reference history: a set is reused for a second compile
	compiles := map[int]int{}
	for _, o := range cfg.Ops {
		switch o.Kind {
		case "new_ps":
			compiles[o.PS] = 0
		case "compile", "load", "lint_all", "lint_file":
			compiles[o.PS]++
			if compiles[o.PS] > 1 {
				return true
			}
		}
	}
	return false
}

// programFor returns the idx-th program of the run.
func programFor(master uint64, idx int, cfgName string) *Program {
	b := builtinPrograms()
	if idx < len(b) {
		return b[idx]
	}
	return generatedProgram(simrt.Derive(master, 0x9e, uint64(idx)), cfgName)
}

func main() {
	mode := flag.String("mode", "worker", "worker | replay | dump")
	seed := flag.Uint64("seed", 1, "master seed")
	worker := flag.Int("worker", 0, "worker index")
	workers := flag.Int("workers", 1, "number of workers (program index stride)")
	execs := flag.Int("execs", 40, "simulated executions per program")
	maxProgs := flag.Int("max-programs", 1<<30, "stop after this many programs (per worker)")
	budget := flag.Float64("budget", 60, "wall-clock budget in seconds")
	cfgName := flag.String("gen", "default", "generator config: default | large")
	out := flag.String("out", "", "result file")
	file := flag.String("file", "", "replay file")
	detlog := flag.Bool("detlog", false, "record a per-execution signature log (determinism self-test)")
	replayDir := flag.String("replay-dir", "", "where to write replay files")
	indices := flag.String("indices", "", "refdigest mode: comma-separated program indices, in execution order")
	skip := flag.String("skip", "", "worker mode: comma-separated program indices to skip (their reference execution kills the process)")
	flag.Parse()
	initRaceLog()

	log.DefaultLogger = log.NewCallbackLogger(func(string, string, map[string]interface{}) {})
	stdlog.SetOutput(io.Discard)
	debug.SetMaxStack(128 << 20) // a runaway recursion in the compiler should die quickly, not after 1 GB

	out2 := out
	switch *mode {
	case "worker":
		for _, tok := range strings.Split(*skip, ",") {
			var i int
			if _, err := fmt.Sscan(tok, &i); err == nil {
				skipIdx[i] = true
			}
		}
		res := runWorker(*seed, *worker, *workers, *execs, *maxProgs, *budget, *cfgName, *detlog, *replayDir, *out)
		b, _ := json.Marshal(res)
		if *out == "" {
			os.Stdout.Write(b)
		} else if err := os.WriteFile(*out, b, 0o644); err != nil {
			fmt.Fprintln(os.Stderr, err)
			os.Exit(2)
		}
	case "replay":
		os.Exit(runReplay(*file))
	case "refdigest":
		if *file != "" {
			// digest of one explicit program, computed first thing in this (fresh) process
			b, err := os.ReadFile(*file)
			res := map[string]string{}
			var pj ProgramJSON
			if err == nil {
				err = json.Unmarshal(b, &pj)
			}
			if err == nil {
				var p *Program
				if p, err = pj.ToProgram(); err == nil {
					d := inProcessDigest(p)
					if strings.HasPrefix(d, "error:") {
						res["error"] = strings.TrimPrefix(d, "error:")
					} else {
						res["digest"] = d
					}
				}
			}
			if err != nil {
				res["error"] = err.Error()
			}
			ob, _ := json.Marshal(res)
			os.Stdout.Write(ob)
			return
		}
		// compute only the reference outputs of the listed program indices, in that order, in this
		// process: the driver compares the digests with those obtained under other process histories
		out := map[string]string{}
		for _, tok := range strings.Split(*indices, ",") {
			var idx int
			if _, err := fmt.Sscan(tok, &idx); err != nil {
				continue
			}
			p := programFor(*seed, idx, *cfgName)
			ref, err := computeReference(p)
			if err != nil {
				out[fmt.Sprint(idx)] = "error"
				continue
			}
			out[fmt.Sprint(idx)] = refDigest(p, ref)
		}
		b, _ := json.Marshal(map[string]interface{}{"ref_digests": out})
		if *out2 == "" {
			os.Stdout.Write(b)
		} else {
			_ = os.WriteFile(*out2, b, 0o644)
		}
	case "try":
		// compile the files of a directory (-file) as one program and print outputs
		p := programFromDir(*file)
		ref, err := computeReference(p)
		if err != nil {
			fmt.Println("ERROR:", err)
			os.Exit(1)
		}
		for _, pkg := range p.Packages {
			for _, f := range ref[pkg] {
				fmt.Printf("==== %s (%d descriptor bytes)\n%s\n", f.Path, len(f.Desc), f.Text)
			}
		}
	case "dump":
		p := programFor(*seed, *worker, *cfgName)
		for _, n := range p.FileNames() {
			fmt.Printf("==== %s\n%s\n", n, p.Files[n])
		}
		for _, d := range p.Deps {
			fmt.Printf("==== dep %s\n%s\n", d.GetName(), prototextish(d))
		}
	default:
		fmt.Fprintln(os.Stderr, "unknown mode")
		os.Exit(2)
	}
}

// Race log of the race-enabled workers (two of the sixteen run a -race build of the same harness:
// goroutines that the compile path may start must not race, whatever the Go scheduler does).
var raceLogPath string
var raceLogOff int64

func initRaceLog() {
	for _, kv := range strings.Fields(os.Getenv("GORACE")) {
		if strings.HasPrefix(kv, "log_path=") {
			raceLogPath = fmt.Sprintf("%s.%d", strings.TrimPrefix(kv, "log_path="), os.Getpid())
		}
	}
}

func newRaceReports() string {
	if raceLogPath == "" {
		return ""
	}
	st, err := os.Stat(raceLogPath)
	if err != nil || st.Size() <= raceLogOff {
		return ""
	}
	f, err := os.Open(raceLogPath)
	if err != nil {
		return ""
	}
	defer f.Close()
	buf := make([]byte, st.Size()-raceLogOff)
	_, _ = f.ReadAt(buf, raceLogOff)
	raceLogOff = st.Size()
	if !strings.Contains(string(buf), "github.com/pentops/j5/internal/") && !strings.Contains(string(buf), "github.com/pentops/j5/lib/") {
		return "" // nothing of the code under test in it
	}
	return string(buf)
}

var skipIdx = map[int]bool{}

// variantBudget bounds the child processes a worker spawns for variant checks.
var variantBudget = 40

func runWorker(master uint64, worker, workers, execs, maxProgs int, budget float64, cfgName string, detlog bool, replayDir string, outPath string) *WorkerResult {
	start := time.Now()
	res := &WorkerResult{Worker: worker, Stats: newStats(), FirstIndex: -1, RefDigests: map[string]string{}}
	stats := res.Stats
	sigs := map[uint64]bool{}
	seenKeys := map[string]bool{}
	progs := 0
	for idx := worker; progs < maxProgs; idx += workers {
		if time.Since(start).Seconds() > budget {
			break
		}
		progs++
		if res.FirstIndex < 0 {
			res.FirstIndex = idx
		}
		res.LastIndex = idx
		if skipIdx[idx] {
			stats.Probes["programs_skipped_reference_crashes_process"]++
			continue
		}
		p := programFor(master, idx, cfgName)
		stats.Programs++
		writeMarker := func(e int, cfg ExecCfg) {
			if outPath == "" {
				return
			}
			// marker for the driver: if this process dies, this is what killed it
			cur := &Replay{Property: "C14", MasterSeed: master, ProgIndex: idx, ExecIndex: e, Program: p.ToJSON(), Exec: cfg,
				Violation: &Violation{Class: "process_crash", OpIndex: -1}, FindingKey: "process_crash"}
			b, _ := json.Marshal(cur)
			_ = os.WriteFile(outPath+".current", b, 0o644)
		}
		writeMarker(-1, ExecCfg{})
		ref, err := computeReference(p)
		if err == nil {
			for _, pkg := range p.Packages {
				if _, fails := refFails(ref, pkg); fails {
					stats.Probes["packages_whose_reference_fails"]++
				}
			}
		}
		if err != nil {
			stats.ProgramsDiscarded++
			stats.DiscardReasons[truncate(err.Error(), 160)]++
			// The canonical execution fails. If the very same program compiles under some other
			// listing / iteration order, the failure is order-dependent: the property's "always
			// yields" is broken from the other side.
			if !seenKeys["order_dependent_error/reference"] {
				progSeed := simrt.Derive(master, 0xe0, uint64(idx))
				for e := 0; e < 12; e++ {
					cfg := genExecCfg(p, simrt.Derive(progSeed, 0xbad, uint64(e)))
					cfg.Mode, cfg.PermSites, cfg.PermListings, cfg.ListGenerated, cfg.RealReader = "perm_only", true, true, false, false
					cfg.Ops = genOps(p, "perm_only", nil)
					writeMarker(e, cfg)
					okAll := true
					func() {
						ex := newExecState(cfg, nil)
						simrt.SetPermHook(ex.perm)
						defer simrt.SetPermHook(nil)
						for _, pkg := range p.Packages {
							ps, perr := protobuild.NewPackageSet(newMemDeps(p, ex), &memSource{prog: p, ex: ex})
							if perr != nil {
								okAll = false
								return
							}
							if _, cerr, pan := compileOutputs(context.Background(), ps, pkg); cerr != nil || pan != "" {
								okAll = false
								return
							}
						}
					}()
					stats.Executions++
					if okAll {
						seenKeys["order_dependent_error/reference"] = true
						res.Violations = append(res.Violations, &Replay{Property: "C14", MasterSeed: master, ProgIndex: idx, ExecIndex: e, Program: p.ToJSON(), Exec: cfg,
							Violation:  &Violation{Class: "order_dependent_error", Form: "reference", OpIndex: -1, Detail: "the canonical execution (sorted listings, identity orders) fails with: " + truncate(err.Error(), 400) + "\nbut the same program compiles under the permuted orders of this execution"},
							FindingKey: "order_dependent_error/reference", Minimised: false})
						break
					}
				}
			}
			continue
		}
		for k, v := range p.Features {
			stats.Features[k] += v
		}
		res.RefDigests[fmt.Sprint(idx)] = refDigest(p, ref)
		progSeed := simrt.Derive(master, 0xe0, uint64(idx))
		for e := 0; e < execs; e++ {
			if e%8 == 7 && time.Since(start).Seconds() > budget {
				break
			}
			cfg := genExecCfg(p, simrt.Derive(progSeed, uint64(e)))
			writeMarker(e, cfg)
			v, ex := runExec(p, ref, cfg, stats)
			if rr := newRaceReports(); rr != "" && v == nil {
				stats.Probes["race_reports"]++
				v = &Violation{Class: "data_race", Form: "", OpIndex: -1, Detail: "the Go race detector reported, during this execution:\n" + truncate(rr, 5000)}
			}
			stats.Executions++
			stats.Ops += len(cfg.Ops)
			stats.ByMode[cfg.Mode]++
			nt := nonTrivial(p, cfg, ex)
			sig := execSig(p, cfg, ex)
			if nt {
				stats.NonTrivial++
				sigs[sig] = true
			}
			if detlog {
				res.DetLog = append(res.DetLog, fmt.Sprintf("%d/%d %016x v=%v", idx, e, sig, v != nil))
			}
			if len(res.Samples) < 3 && nt && e > 2 {
				res.Samples = append(res.Samples, Sample{Program: p.Name, Files: p.FileNames(), Mode: cfg.Mode, Ops: opsStrings(cfg.Ops), Permuted: appliedSites(ex.applied)})
			}
			if v != nil {
				if seenKeys[v.Key()] {
					continue // one minimised report per violation class per worker
				}
				seenKeys[v.Key()] = true
				rp := &Replay{Property: "C14", MasterSeed: master, ProgIndex: idx, ExecIndex: e, Program: p.ToJSON(), Exec: cfg, Violation: v, Applied: ex.applied}
				rp = minimise(p, rp)
				rp.FindingKey = findingKey(rp)
				res.Violations = append(res.Violations, rp)
			}
		}
		// variant check: an edited revision of this bundle, compiled now (after everything above),
		// must give what a fresh process gives
		if variantBudget > 0 && simrt.Derive(progSeed, 0x7a7)%4 == 0 && !seenKeys["process_history_dependence"] {
			if vp, edit := variantOf(p, progSeed); vp != nil {
				variantBudget--
				here := inProcessDigest(vp)
				fresh, err := freshDigest(vp)
				stats.Probes["variant_checks"]++
				if err == nil && strings.HasPrefix(fresh, "error:") {
					stats.Probes["variant_does_not_compile"]++
				} else if err == nil && here != fresh {
					seenKeys["process_history_dependence"] = true
					res.Violations = append(res.Violations, &Replay{Property: "C14", MasterSeed: master, ProgIndex: idx, ExecIndex: -1, Minimised: true,
						FindingKey: "process_history_dependence",
						Violation:  &Violation{Class: "process_history_dependence", OpIndex: -1, Detail: fmt.Sprintf("edited bundle (%s): digest %s in a fresh process, %s in the process that compiled the original first", edit, fresh, here)},
						History:    &HistoryCase{Index: idx, GenCfg: cfgName, Fresh: fresh, History: here, Before: p.ToJSON(), Target: vp.ToJSON(), Edit: edit}})
				}
			}
		}
		// uncontrolled nondeterminism: the reference itself, recomputed after
		// the process has seen other work, must be byte-identical
		ref2, err := computeReference(p)
		if err != nil {
			rp := &Replay{Property: "C14", MasterSeed: master, ProgIndex: idx, ExecIndex: -1, Program: p.ToJSON(), Violation: &Violation{Class: "uncontrolled_nondeterminism", Form: "error", Detail: "second reference run failed: " + err.Error()}}
			if !seenKeys[rp.Violation.Key()] {
				seenKeys[rp.Violation.Key()] = true
				rp.FindingKey = rp.Violation.Key()
				res.Violations = append(res.Violations, rp)
			}
		} else {
			for _, pkg := range p.Packages {
				form, file, detail := compareOutputs(ref[pkg], ref2[pkg])
				if _, f1 := refFails(ref, pkg); form == "" {
					if _, f2 := refFails(ref2, pkg); f1 != f2 {
						form, detail = "error", fmt.Sprintf("the canonical compile failed in one of two runs only (first run failed: %v)", f1)
					}
				}
				if form != "" {
					rp := &Replay{Property: "C14", MasterSeed: master, ProgIndex: idx, ExecIndex: -1, Program: p.ToJSON(), Violation: &Violation{Class: "uncontrolled_nondeterminism", Form: form, Pkg: pkg, File: file, Detail: detail},
						Note: "same program, same (identity) decisions, two executions in one process gave different bytes; replay is statistical (<=200 repetitions)"}
					if !seenKeys[rp.Violation.Key()] {
						seenKeys[rp.Violation.Key()] = true
						rp.FindingKey = rp.Violation.Key()
						res.Violations = append(res.Violations, rp)
					}
					break
				}
			}
		}
	}
	for s := range sigs {
		res.Sigs = append(res.Sigs, s)
	}
	sort.Slice(res.Sigs, func(i, j int) bool { return res.Sigs[i] < res.Sigs[j] })
	res.WallS = time.Since(start).Seconds()
	_ = replayDir
	if outPath != "" {
		_ = os.Remove(outPath + ".current")
	}
	return res
}

// findingKey identifies a violation by what it needs in order to manifest:
// class/form, the iteration sites that must be out of order, the kinds of
// operations in the minimised history.
func findingKey(rp *Replay) string {
	kinds := map[string]bool{}
	for _, o := range rp.Exec.Ops {
		kinds[o.Kind] = true
	}
	var ks []string
	for k := range kinds {
		ks = append(ks, k)
	}
	sort.Strings(ks)
	return rp.Violation.Key() + "@" + strings.Join(appliedSites(rp.Applied), "+") + "|" + strings.Join(ks, "+")
}

func appliedSites(a []Applied) []string {
	seen := map[string]bool{}
	var out []string
	for _, x := range a {
		if !seen[x.Site] {
			seen[x.Site] = true
			out = append(out, x.Site)
		}
	}
	sort.Strings(out)
	return out
}

func truncate(s string, n int) string {
	if len(s) > n {
		return s[:n] + "…"
	}
	return s
}

// ---------------------------------------------------------------- replay

func runReplay(file string) int {
	b, err := os.ReadFile(file)
	if err != nil {
		fmt.Fprintln(os.Stderr, "replay:", err)
		return 2
	}
	var rp Replay
	if err := json.Unmarshal(b, &rp); err != nil {
		fmt.Fprintln(os.Stderr, "replay:", err)
		return 2
	}
	if rp.Violation.Class == "process_history_dependence" || rp.Violation.Class == "environment_dependence" || (rp.Violation.Class == "process_crash" && rp.History != nil) {
		return replayHistory(&rp)
	}
	p, err := rp.Program.ToProgram()
	if err != nil {
		fmt.Fprintln(os.Stderr, "replay:", err)
		return 2
	}
	if rp.Violation.Class == "order_dependent_error" && rp.Violation.Form == "reference" {
		_, rerr := computeReference(p)
		if rerr == nil {
			fmt.Println("REPLAY: no violation (the canonical execution compiles on this tree)")
			return 0
		}
		ex := newExecState(rp.Exec, nil)
		simrt.SetPermHook(ex.perm)
		defer simrt.SetPermHook(nil)
		for _, pkg := range p.Packages {
			ps, perr := protobuild.NewPackageSet(newMemDeps(p, ex), &memSource{prog: p, ex: ex})
			if perr != nil {
				fmt.Println("REPLAY: no violation (fails under the recorded orders too)")
				return 0
			}
			if _, cerr, pan := compileOutputs(context.Background(), ps, pkg); cerr != nil || pan != "" {
				fmt.Println("REPLAY: no violation (fails under the recorded orders too)")
				return 0
			}
		}
		fmt.Printf("REPLAY: violation class=order_dependent_error form=reference: the canonical execution fails (%s) but the same program compiles under the recorded listing/iteration orders %v\n", truncate(rerr.Error(), 300), appliedSites(ex.applied))
		return 1
	}
	ref, err := computeReference(p)
	if err != nil {
		fmt.Printf("REPLAY: reference no longer compiles (%v): cannot judge\n", err)
		return 2
	}
	fmt.Println("REPLAY-PHASE reference-ok") // a crash after this line happened in the simulated execution only
	os.Stdout.Sync()
	if rp.Violation.Class == "uncontrolled_nondeterminism" {
		for i := 0; i < 200; i++ {
			ref2, err := computeReference(p)
			if err != nil {
				fmt.Printf("REPLAY: reproduced: reference run %d failed: %v\n", i, err)
				return 1
			}
			for _, pkg := range p.Packages {
				if form, f, detail := compareOutputs(ref[pkg], ref2[pkg]); form != "" {
					fmt.Printf("REPLAY: reproduced uncontrolled nondeterminism at repetition %d: %s %s %s\n", i, form, f, detail)
					return 1
				}
			}
		}
		fmt.Println("REPLAY: not reproduced in 200 repetitions")
		return 0
	}
	// With every iteration order in /repo seeded, an execution is a pure function of the file and
	// the first repetition decides. Repetitions only matter when the output also depends on a
	// source the simulator does not own (iteration inside a dependency, addresses): then the
	// violation is real but shows up in some repetitions only, and the report says so.
	var v *Violation
	var ex *execState
	hits, reps := 0, 0
	for reps = 1; reps <= 30; reps++ {
		vi, exi := runExec(p, ref, rp.Exec, nil)
		if vi != nil {
			hits++
			if v == nil {
				v, ex = vi, exi
			}
		}
		if reps == 1 && vi != nil {
			break
		}
	}
	if rr := newRaceReports(); rr != "" && (v == nil || rp.Violation.Class == "data_race") {
		fmt.Printf("REPLAY: violation class=data_race: the Go race detector reports, while this execution is repeated:\n%s\n", truncate(rr, 3000))
		return 1
	}
	if v == nil {
		fmt.Println("REPLAY: no violation (the recorded violation does not occur on this tree)")
		return 0
	}
	if reps > 1 {
		fmt.Printf("REPLAY: NOTE the violation occurred in %d of %d repetitions of identical decisions: the output also depends on a source of nondeterminism outside the simulator's control\n", hits, reps-1)
	}
	fmt.Printf("REPLAY: violation class=%s form=%s op=%d %s pkg=%s file=%s\n  %s\n  non-identity orders applied: %v\n", v.Class, v.Form, v.OpIndex, v.Op, v.Pkg, v.File, truncate(v.Detail, 600), appliedSites(ex.applied))
	if v.Key() == rp.Violation.Key() {
		return 1
	}
	fmt.Printf("REPLAY: a different violation than recorded (%s) occurred\n", rp.Violation.Key())
	return 1
}

var _ = context.Background

func programFromDir(dir string) *Program {
	p := &Program{Name: dir, Files: map[string]string{}}
	pk := map[string]bool{}
	_ = filepath.WalkDir(dir, func(path string, d fs.DirEntry, err error) error {
		if err != nil || d.IsDir() {
			return nil
		}
		rel, _ := filepath.Rel(dir, path)
		b, _ := os.ReadFile(path)
		p.Files[rel] = string(b)
		pk[strings.ReplaceAll(filepath.Dir(rel), "/", ".")] = true
		return nil
	})
	for k := range pk {
		p.Packages = append(p.Packages, k)
	}
	sort.Strings(p.Packages)
	return p
}
