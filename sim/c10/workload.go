package main

import (
	"bytes"
	"crypto/sha256"
	"encoding/hex"
	"encoding/json"
	"fmt"
	"math"
	"net/url"
	"reflect"
	"regexp"
	"runtime/debug"
	"sort"
	"strings"
	"time"

	"buf.build/gen/go/bufbuild/protovalidate/protocolbuffers/go/buf/validate"
	_ "github.com/pentops/j5/gen/j5/auth/v1/auth_j5pb"
	_ "github.com/pentops/j5/gen/j5/client/v1/client_j5pb"
	_ "github.com/pentops/j5/gen/j5/config/v1/config_j5pb"
	_ "github.com/pentops/j5/gen/j5/ext/v1/ext_j5pb"
	_ "github.com/pentops/j5/gen/j5/list/v1/list_j5pb"
	_ "github.com/pentops/j5/gen/j5/messaging/v1/messaging_j5pb"
	_ "github.com/pentops/j5/gen/j5/plugin/v1/plugin_j5pb"
	_ "github.com/pentops/j5/gen/j5/schema/v1/schema_j5pb"
	_ "github.com/pentops/j5/gen/j5/source/v1/source_j5pb"
	_ "github.com/pentops/j5/gen/j5/sourcedef/v1/sourcedef_j5pb"
	_ "github.com/pentops/j5/gen/j5/state/v1/psm_j5pb"
	_ "github.com/pentops/j5/gen/test/foo/v1/foo_testpb"
	_ "github.com/pentops/j5/gen/test/foo/v1/foo_testspb"
	_ "github.com/pentops/j5/gen/test/schema/v1/schema_testpb"
	"github.com/pentops/j5/internal/codec"
	"github.com/pentops/j5/internal/zzverif/simrt"
	"github.com/pentops/j5/j5types/any_j5t"
	"github.com/pentops/j5/lib/j5codec"
	"github.com/pentops/j5/lib/j5reflect"
	"github.com/pentops/j5/lib/j5schema"
	"google.golang.org/protobuf/proto"
	"google.golang.org/protobuf/reflect/protoreflect"
	"google.golang.org/protobuf/reflect/protoregistry"
)

// ---------------------------------------------------------------- catalogue

type TypeInfo struct {
	Key         string // catalogue key if different from Name ("twin:<name>")
	Name        string
	Desc        protoreflect.MessageDescriptor
	Type        protoreflect.MessageType
	Reflectable bool // a fresh codec encodes the empty message without error
	Pkg         string
}

var catalogue []*TypeInfo
var catByName = map[string]*TypeInfo{}
var goodTypes, badTypes []*TypeInfo
var byPkg = map[string][]*TypeInfo{}
var pkgNames []string
var featureTypes []*TypeInfo
var twinList []*TypeInfo
var clashTypes []*TypeInfo

// genTypesEnabled: this process draws workloads over types compiled from generated bundles. Only
// every third worker does: compiling a bundle runs a lot of j5 code (the BCL parser reflects its own
// schema) before any task exists, and the other workers must keep meeting process-wide state cold.
var genTypesEnabled bool

// key returns the name an OpSpec uses for the type.
func (ti *TypeInfo) key() string {
	if ti.Key != "" {
		return ti.Key
	}
	return ti.Name
}

func pickGood(rng *simrt.Rng) *TypeInfo {
	if len(featureTypes) > 0 && rng.Bool(0.35) {
		return featureTypes[rng.Intn(len(featureTypes))]
	}
	return goodTypes[rng.Intn(len(goodTypes))]
}

// staticallyUnreflectable: the message (transitively) has a field kind J5 has no representation for.
func staticallyUnreflectable(md protoreflect.MessageDescriptor, seen map[protoreflect.FullName]bool) bool {
	if seen[md.FullName()] {
		return false
	}
	seen[md.FullName()] = true
	if md.FullName() == "j5.source.v1.SourceImage" {
		return true // carries raw FileDescriptorProtos
	}
	fields := md.Fields()
	for i := 0; i < fields.Len(); i++ {
		fd := fields.Get(i)
		switch fd.Kind() {
		case protoreflect.Fixed32Kind, protoreflect.Fixed64Kind, protoreflect.Sfixed32Kind, protoreflect.Sfixed64Kind, protoreflect.GroupKind:
			return true
		case protoreflect.BoolKind:
			// a const rule on a bool makes the schema build panic today (nil rules dereferenced)
			if c, ok := proto.GetExtension(fd.Options(), validate.E_Field).(*validate.FieldConstraints); ok && c.GetBool() != nil && c.GetBool().Const != nil {
				return true
			}
		case protoreflect.EnumKind:
			if vals := fd.Enum().Values(); vals.Len() == 0 || !strings.HasSuffix(string(vals.Get(0).Name()), "UNSPECIFIED") {
				return true
			}
		case protoreflect.MessageKind:
			if fd.IsMap() {
				if mv := fd.MapValue(); mv.Kind() == protoreflect.MessageKind && staticallyUnreflectable(mv.Message(), seen) {
					return true
				}
				continue
			}
			if strings.HasPrefix(string(fd.Message().FullName()), "google.protobuf.") {
				continue
			}
			if staticallyUnreflectable(fd.Message(), seen) {
				return true
			}
		}
	}
	return false
}

// catalogueHang: the very first use of this type on a fresh codec never returned (native mode only)
var catalogueHang string

// callWithTimeout runs f; in native-fallback builds (the code under test may block on primitives
// the simulator does not own) it gives up after 15 s of real time and reports false. The goroutine
// is then leaked on purpose.
func callWithTimeout(f func()) bool {
	if !nativeFallback() {
		f()
		return true
	}
	done := make(chan struct{})
	go func() {
		defer close(done)
		f()
	}()
	select {
	case <-done:
		return true
	case <-time.After(15 * time.Second):
		return false
	}
}

func buildCatalogue() {
	registerDynamicTypes()
	registerSourceTypes()
	registerFillTypes()
	var names []string
	protoregistry.GlobalTypes.RangeMessages(func(mt protoreflect.MessageType) bool {
		n := string(mt.Descriptor().FullName())
		if strings.HasPrefix(n, "test.") || strings.HasPrefix(n, "j5.") {
			if !mt.Descriptor().IsMapEntry() {
				names = append(names, n)
			}
		}
		return true
	})
	sort.Strings(names)
	for _, n := range names {
		mt, err := protoregistry.GlobalTypes.FindMessageByName(protoreflect.FullName(n))
		if err != nil {
			continue
		}
		ti := &TypeInfo{Name: n, Desc: mt.Descriptor(), Type: mt, Pkg: string(mt.Descriptor().ParentFile().Package())}
		// No type is touched here: a first use must be free to happen inside a simulated run.
		// Which types J5 cannot reflect is only needed for workload weighting and fault counts,
		// so a static estimate is enough.
		ti.Reflectable = !staticallyUnreflectable(mt.Descriptor(), map[protoreflect.FullName]bool{})
		catalogue = append(catalogue, ti)
		catByName[n] = ti
		if ti.Pkg == "test.zzclash.v1" {
			clashTypes = append(clashTypes, ti) // known finding: workloads of their own only
		} else if ti.Reflectable {
			goodTypes = append(goodTypes, ti)
			byPkg[ti.Pkg] = append(byPkg[ti.Pkg], ti)
		} else {
			badTypes = append(badTypes, ti)
		}
	}
	// dynamic twins of generated types: same full name, different descriptor objects
	for _, mt := range twinTypes() {
		n := string(mt.Descriptor().FullName())
		base := catByName[n]
		if base == nil || !base.Reflectable {
			continue
		}
		ti := &TypeInfo{Name: n, Desc: mt.Descriptor(), Type: mt, Pkg: base.Pkg, Reflectable: true}
		catalogue = append(catalogue, ti)
		catByName["twin:"+n] = ti
		ti.Key = "twin:" + n
		twinList = append(twinList, ti)
	}
	for p := range byPkg {
		pkgNames = append(pkgNames, p)
	}
	sort.Strings(pkgNames)
	// the repository's own test protos exist to cover every J5 feature (flattening, exposed and
	// wrapped oneofs, anys, keys, wrappers ...): they get extra weight in the type pools
	for _, ti := range goodTypes {
		if strings.HasPrefix(ti.Pkg, "test.schema.") || strings.HasPrefix(ti.Pkg, "test.foo.") || strings.HasPrefix(ti.Pkg, "test.zzcyc.") || strings.HasPrefix(ti.Pkg, "test.zzshape.") {
			featureTypes = append(featureTypes, ti)
		}
	}
}

// ---------------------------------------------------------------- seeded message population

var smallAnyTypes = []string{"test.schema.v1.Bar", "test.schema.v1.Baz", "test.foo.v1.Bar", "j5.types.date.v1.Date"}

func populate(rng *simrt.Rng, md protoreflect.MessageDescriptor, msg protoreflect.Message, depth int) {
	switch md.FullName() {
	case "google.protobuf.Timestamp":
		msg.Set(md.Fields().ByName("seconds"), protoreflect.ValueOfInt64(int64(1_000_000_000+rng.Intn(700_000_000))))
		if rng.Bool(0.3) {
			msg.Set(md.Fields().ByName("nanos"), protoreflect.ValueOfInt32(int32(rng.Intn(1000))*1_000_000))
		}
		return
	case "google.protobuf.Duration":
		msg.Set(md.Fields().ByName("seconds"), protoreflect.ValueOfInt64(int64(rng.Intn(100000))))
		return
	case "google.protobuf.Any":
		inner := catByName[smallAnyTypes[rng.Intn(2)]]
		im := inner.Type.New()
		if anyChain > 1 {
			// a chain of nested anys: the codec re-enters itself once per level
			anyChain--
			inner = catByName["test.schema.v1.FullSchema"]
			im = inner.Type.New()
			im.Set(inner.Desc.Fields().ByName("s_string"), protoreflect.ValueOfString(words[rng.Intn(len(words))]))
			populate(rng, inner.Desc.Fields().ByName("pbany").Message(), im.Mutable(inner.Desc.Fields().ByName("pbany")).Message(), 3)
		} else {
			populate(rng, inner.Desc, im, 3)
		}
		b, _ := proto.MarshalOptions{Deterministic: true}.Marshal(im.Interface())
		msg.Set(md.Fields().ByName("type_url"), protoreflect.ValueOfString("type.googleapis.com/"+inner.Name))
		msg.Set(md.Fields().ByName("value"), protoreflect.ValueOfBytes(b))
		return
	case "j5.types.any.v1.Any":
		inner := catByName[smallAnyTypes[rng.Intn(len(smallAnyTypes))]]
		im := inner.Type.New()
		populate(rng, inner.Desc, im, 3)
		b, _ := proto.MarshalOptions{Deterministic: true}.Marshal(im.Interface())
		msg.Set(md.Fields().ByName("type_name"), protoreflect.ValueOfString(inner.Name))
		msg.Set(md.Fields().ByName("proto"), protoreflect.ValueOfBytes(b))
		// an Any with a type name but neither proto bytes nor JSON makes the encoder emit
		// malformed JSON (an input-validity matter outside C10): never generate it
		if coldStart && len(b) == 0 {
			msg.Set(md.Fields().ByName("j5_json"), protoreflect.ValueOfBytes([]byte("{}")))
		}
		if (len(b) == 0 || rng.Bool(0.5)) && !coldStart { // a cold-start process prepares its inputs without the code under test
			if js, err := codec.NewCodec().ProtoToJSON(im); err == nil {
				msg.Set(md.Fields().ByName("j5_json"), protoreflect.ValueOfBytes(js))
			}
		}
		return
	case "j5.types.date.v1.Date":
		msg.Set(md.Fields().ByName("year"), protoreflect.ValueOfInt32(int32(1990+rng.Intn(40))))
		msg.Set(md.Fields().ByName("month"), protoreflect.ValueOfInt32(int32(1+rng.Intn(12))))
		msg.Set(md.Fields().ByName("day"), protoreflect.ValueOfInt32(int32(1+rng.Intn(28))))
		return
	case "j5.types.decimal.v1.Decimal":
		msg.Set(md.Fields().ByName("value"), protoreflect.ValueOfString(fmt.Sprintf("%d.%02d", rng.Intn(1000), rng.Intn(100))))
		return
	}
	if strings.HasPrefix(string(md.FullName()), "google.protobuf.") {
		return // Struct, Value, wrappers ...: leave empty
	}
	fields := md.Fields()
	for i := 0; i < fields.Len(); i++ {
		fd := fields.Get(i)
		p := 0.6
		if depth >= 2 {
			p = 0.3
		}
		if fd.ContainingOneof() != nil && !fd.HasOptionalKeyword() {
			p = 0.5
		}
		if !rng.Bool(p) {
			continue
		}
		switch {
		case fd.IsMap():
			if depth >= 3 && fd.MapValue().Kind() == protoreflect.MessageKind {
				continue
			}
			m := msg.Mutable(fd).Map()
			n := 1 + rng.Intn(2)
			if bigValues && rng.Bool(0.5) && fd.MapKey().Kind() != protoreflect.BoolKind {
				n = bigCount(60 + rng.Intn(100))
			}
			for j := 0; j < n; j++ {
				var k protoreflect.MapKey
				switch fd.MapKey().Kind() {
				case protoreflect.StringKind:
					k = protoreflect.ValueOfString(fmt.Sprintf("k%d", j)).MapKey()
				case protoreflect.BoolKind:
					k = protoreflect.ValueOfBool(j == 0).MapKey()
				case protoreflect.Int32Kind, protoreflect.Sint32Kind, protoreflect.Sfixed32Kind:
					k = protoreflect.ValueOfInt32(int32(j)).MapKey()
				case protoreflect.Int64Kind, protoreflect.Sint64Kind, protoreflect.Sfixed64Kind:
					k = protoreflect.ValueOfInt64(int64(j)).MapKey()
				case protoreflect.Uint32Kind, protoreflect.Fixed32Kind:
					k = protoreflect.ValueOfUint32(uint32(j)).MapKey()
				default:
					k = protoreflect.ValueOfUint64(uint64(j)).MapKey()
				}
				if fd.MapValue().Kind() == protoreflect.MessageKind {
					v := m.NewValue()
					populate(rng, fd.MapValue().Message(), v.Message(), depth+1)
					m.Set(k, v)
				} else {
					m.Set(k, scalarValue(rng, fd.MapValue()))
				}
			}
		case fd.IsList():
			if depth >= 3 && fd.Kind() == protoreflect.MessageKind {
				continue
			}
			l := msg.Mutable(fd).List()
			n := 1 + rng.Intn(2)
			if bigValues && rng.Bool(0.5) {
				if fd.Kind() == protoreflect.MessageKind {
					n = bigCount(20 + rng.Intn(30))
				} else {
					n = bigCount(150 + rng.Intn(350))
				}
			}
			for j := 0; j < n; j++ {
				if fd.Kind() == protoreflect.MessageKind || fd.Kind() == protoreflect.GroupKind {
					v := l.NewElement()
					populate(rng, fd.Message(), v.Message(), depth+1)
					l.Append(v)
				} else {
					l.Append(scalarValue(rng, fd))
				}
			}
		case fd.Kind() == protoreflect.MessageKind || fd.Kind() == protoreflect.GroupKind:
			if depth >= 3 {
				continue
			}
			populate(rng, fd.Message(), msg.Mutable(fd).Message(), depth+1)
		default:
			msg.Set(fd, scalarValue(rng, fd))
		}
	}
}

var words = []string{"a", "bb", "foo", "bar-1", "Zed", "x y", "ünï", "0"}

// bigValues: the value being populated is one of the rare LARGE ones (1 in 48): strings and bytes of
// several kilobytes up to 80 KB, lists of hundreds of scalars or dozens of messages, integers at the
// ends of their ranges - sizes at which buffers grow, chunks split and fast paths give way.
var bigValues bool

// bigBudget bounds one large value: list/map elements and string bytes still to be handed out
// (nested lists of messages with large members would otherwise multiply into gigabytes).
var bigElems, bigBytes int

func bigCount(n int) int {
	if n > bigElems {
		n = bigElems
	}
	if n < 2 {
		return 2
	}
	bigElems -= n
	return n
}

func bigString(rng *simrt.Rng) string {
	n := []int{4097, 8192, 20000, 65536, 80001}[rng.Intn(5)]
	if n > bigBytes {
		return words[rng.Intn(len(words))]
	}
	bigBytes -= n
	var sb strings.Builder
	for sb.Len() < n {
		sb.WriteString(words[rng.Intn(len(words))])
		sb.WriteByte(' ')
	}
	return sb.String()[:n-1] + "!"
}

func scalarValue(rng *simrt.Rng, fd protoreflect.FieldDescriptor) protoreflect.Value {
	switch fd.Kind() {
	case protoreflect.BoolKind:
		return protoreflect.ValueOfBool(rng.Bool(0.7))
	case protoreflect.EnumKind:
		vals := fd.Enum().Values()
		return protoreflect.ValueOfEnum(vals.Get(rng.Intn(vals.Len())).Number())
	case protoreflect.Int32Kind, protoreflect.Sint32Kind, protoreflect.Sfixed32Kind:
		if bigValues && rng.Bool(0.5) {
			return protoreflect.ValueOfInt32([]int32{math.MaxInt32, math.MinInt32, math.MaxInt32 - 1}[rng.Intn(3)])
		}
		return protoreflect.ValueOfInt32(int32(rng.Intn(2000) - 1000))
	case protoreflect.Int64Kind, protoreflect.Sint64Kind, protoreflect.Sfixed64Kind:
		if bigValues && rng.Bool(0.5) {
			return protoreflect.ValueOfInt64([]int64{math.MaxInt64, math.MinInt64, 1 << 53, -(1 << 53) - 1}[rng.Intn(4)])
		}
		return protoreflect.ValueOfInt64(int64(rng.Intn(2000000) - 1000000))
	case protoreflect.Uint32Kind, protoreflect.Fixed32Kind:
		if bigValues && rng.Bool(0.5) {
			return protoreflect.ValueOfUint32(math.MaxUint32)
		}
		return protoreflect.ValueOfUint32(uint32(rng.Intn(5000)))
	case protoreflect.Uint64Kind, protoreflect.Fixed64Kind:
		if bigValues && rng.Bool(0.5) {
			return protoreflect.ValueOfUint64([]uint64{math.MaxUint64, 1<<63 + 1, 1 << 53}[rng.Intn(3)])
		}
		return protoreflect.ValueOfUint64(uint64(rng.Intn(5000000)))
	case protoreflect.FloatKind:
		return protoreflect.ValueOfFloat32(float32(rng.Intn(1000)) / 8)
	case protoreflect.DoubleKind:
		return protoreflect.ValueOfFloat64(float64(rng.Intn(100000)) / 16)
	case protoreflect.StringKind:
		if bigValues && rng.Bool(0.3) {
			return protoreflect.ValueOfString(bigString(rng))
		}
		return protoreflect.ValueOfString(words[rng.Intn(len(words))])
	case protoreflect.BytesKind:
		if bigValues && rng.Bool(0.4) {
			return protoreflect.ValueOfBytes([]byte(bigString(rng)))
		}
		return protoreflect.ValueOfBytes([]byte(words[rng.Intn(len(words))]))
	}
	panic("unhandled kind " + fd.Kind().String())
}

// anyChain > 1 makes the next google.protobuf.Any that is populated a chain of that many nested anys
// (only used from the single goroutine that prepares workloads).
var anyChain int

// nilOneofInner turns one populated message-typed oneof member of a GENERATED message into the
// state `&Msg{Choice: &Msg_Member{}}`: the wrapper is set, the message pointer inside it is nil.
// Valid, common in hand-written Go, reads as an empty member - and Has() is true while the pointer
// is nil, which is where a reader that uses Mutable() writes to the message it only reads.
func nilOneofInner(msg proto.Message) bool {
	v := reflect.ValueOf(msg)
	if v.Kind() != reflect.Ptr || v.IsNil() || v.Elem().Kind() != reflect.Struct {
		return false
	}
	v = v.Elem()
	for i := 0; i < v.NumField(); i++ {
		f := v.Field(i)
		if f.Kind() != reflect.Interface || f.IsNil() || !f.CanSet() {
			continue
		}
		w := f.Elem()
		if w.Kind() != reflect.Ptr || w.IsNil() || w.Elem().Kind() != reflect.Struct || w.Elem().NumField() != 1 {
			continue
		}
		in := w.Elem().Field(0)
		if in.Kind() == reflect.Ptr && in.Type().Elem().Kind() == reflect.Struct && in.CanSet() && !in.IsNil() {
			in.Set(reflect.Zero(in.Type()))
			return true
		}
	}
	return false
}

func newPopulated(ti *TypeInfo, seed uint64) protoreflect.Message {
	m := ti.Type.New()
	rng := simrt.NewRng(seed)
	anyChain = 0
	bigValues = (seed>>24)%48 == 7
	bigElems, bigBytes = 1200, 400_000
	defer func() { bigValues = false }()
	if fd := ti.Desc.Fields().ByName("pbany"); fd != nil && fd.Message() != nil && fd.Message().FullName() == "google.protobuf.Any" && seed%4 == 0 {
		anyChain = 2 + int(seed>>8)%3 // 2..4 levels
		populate(rng, fd.Message(), m.Mutable(fd).Message(), 1)
		anyChain = 0
		m.Set(ti.Desc.Fields().ByName("s_string"), protoreflect.ValueOfString("chain"))
		return m
	}
	populate(rng, ti.Desc, m, 0)
	if (seed>>40)&0xff == 11 {
		deepen(m, []int{300, 800, 1500}[(seed>>48)%3])
	}
	return m
}

// deepen turns a value of a directly recursive message type (a singular field of its own type,
// in or outside a oneof) into a chain of that many levels: documents hundreds of objects deep (1 in
// 256 values of such a type), where recursion guards, depth counters and stack-sized buffers live.
// Deeper still (thousands of levels, several tasks at once) was tried and costs more than a third of
// the exploration budget for one kind of defect; see DESIGN §10.3, thirteenth wave.
func deepen(m protoreflect.Message, levels int) bool {
	md := m.Descriptor()
	var self protoreflect.FieldDescriptor
	fields := md.Fields()
	for i := 0; i < fields.Len(); i++ {
		fd := fields.Get(i)
		if fd.Kind() == protoreflect.MessageKind && !fd.IsList() && !fd.IsMap() && fd.Message().FullName() == md.FullName() {
			self = fd
			break
		}
	}
	if self == nil {
		return false
	}
	cur := m
	for i := 0; i < levels; i++ {
		next := cur.NewField(self).Message()
		// something small in every level that is not the recursive member itself
		for j := 0; j < fields.Len(); j++ {
			fd := fields.Get(j)
			if fd != self && fd.Kind() == protoreflect.StringKind && !fd.IsList() && fd.ContainingOneof() == nil {
				next.Set(fd, protoreflect.ValueOfString("d"))
				break
			}
		}
		cur.Set(self, protoreflect.ValueOfMessage(next))
		cur = next
	}
	return true
}

// ---------------------------------------------------------------- operations

type OpSpec struct {
	Kind    string `json:"kind"` // encode | decode | query | encode_any | decode_any | walk | schema
	Type    string `json:"type"`
	ValSeed uint64 `json:"val_seed"`
	Mutate  int    `json:"mutate,omitempty"` // decode/query: 0 = well-formed, k>0 = k-th malformation
	// NilOneof: a message-typed oneof member of the (generated) input message is set with a nil
	// message pointer inside its wrapper (see nilOneofInner)
	NilOneof bool `json:"nil_oneof,omitempty"`
	Poison   int  `json:"poison,omitempty"` // encode-type ops: 1 = enum number outside the enum, 2 = invalid UTF-8 string (the encode fails after producing output)
}

func (o OpSpec) String() string {
	s := fmt.Sprintf("%s(%s,#%x", o.Kind, o.Type, o.ValSeed&0xffff)
	if o.Mutate != 0 {
		s += fmt.Sprintf(",bad%d", o.Mutate)
	}
	if o.Poison != 0 {
		s += fmt.Sprintf(",poison%d", o.Poison)
	}
	if o.NilOneof {
		s += ",niloneof"
	}
	return s + ")"
}

type Workload struct {
	Codec string     `json:"codec"` // new | proto_to_any | global | reflector | shared_cache
	Warm  []OpSpec   `json:"warm,omitempty"`
	Tasks [][]OpSpec `json:"tasks"`
	// SharedInputs: operations with the same spec share one prepared message INSTANCE, which the
	// encode-type operations hand to the codec as it is (several goroutines encoding one message
	// they all only read). Otherwise every execution gets its own clone.
	SharedInputs bool `json:"shared_inputs,omitempty"`
}

func (w *Workload) Digest() string {
	b, _ := json.Marshal(w)
	h := sha256.Sum256(b)
	return hex.EncodeToString(h[:8])
}

func (w *Workload) NumOps() int {
	n := 0
	for _, t := range w.Tasks {
		n += len(t)
	}
	return n
}

// Env is the shared object under test for one run.
type Env struct {
	codec2 *codec.Codec // two_codecs: a second, independent instance used by the same tasks
	codec  *codec.Codec
	refl   *j5reflect.Reflector
	refl2  *j5reflect.Reflector // second reflector over the same cache (shared_cache)
	cache  *j5schema.SchemaCache
	plain  *codec.Codec // private reference codec used only to prepare inputs
}

func newEnv(kind string) *Env {
	e := &Env{}
	switch kind {
	case "proto_to_any":
		e.codec = j5codec.NewCodec(j5codec.WithProtoToAny())
	case "two_codecs":
		// the package default and a private instance side by side: nothing may leak between them
		codec.Global = codec.NewCodec()
		j5codec.Global = codec.Global
		e.codec = j5codec.Global
		e.codec2 = j5codec.NewCodec()
	case "resolver":
		e.codec = j5codec.NewCodec(j5codec.WithResolver(plainResolver{}))
	case "resolver_proto_to_any":
		e.codec = j5codec.NewCodec(j5codec.WithResolver(plainResolver{}), j5codec.WithProtoToAny())
	case "narrow_resolver":
		e.codec = j5codec.NewCodec(j5codec.WithResolver(narrowResolver{}))
	case "narrow_resolver_proto_to_any":
		e.codec = j5codec.NewCodec(j5codec.WithResolver(narrowResolver{}), j5codec.WithProtoToAny())
	case "global":
		// the package-level default, re-created so that every run starts cold
		codec.Global = codec.NewCodec()
		j5codec.Global = codec.Global
		e.codec = j5codec.Global
	case "reflector":
		e.refl = j5reflect.New()
	case "shared_cache":
		e.cache = j5schema.NewSchemaCache()
		e.refl = j5reflect.NewWithCache(e.cache)
		e.refl2 = j5reflect.NewWithCache(e.cache)
	default:
		e.codec = j5codec.NewCodec()
	}
	return e
}

// plainResolver is a stateless custom resolver (what a caller passes to WithResolver).
type plainResolver struct{}

func (plainResolver) FindMessageByName(name protoreflect.FullName) (protoreflect.MessageType, error) {
	return protoregistry.GlobalTypes.FindMessageByName(name)
}

// narrowResolver knows only part of what is linked in: an Any of a hidden type cannot be
// resolved on such a codec - every time, whatever else the codec has been used for.
type narrowResolver struct{}

var hiddenTypes = []string{"test.schema.v1.Bar", "test.foo.v1.Bar"}

func (narrowResolver) FindMessageByName(name protoreflect.FullName) (protoreflect.MessageType, error) {
	for _, h := range hiddenTypes {
		if string(name) == h {
			return nil, protoregistry.NotFound
		}
	}
	return protoregistry.GlobalTypes.FindMessageByName(name)
}

type Outcome struct {
	Class string `json:"class"` // ok | error | panic
	Canon string `json:"canon,omitempty"`
	Text  string `json:"text,omitempty"` // error text / panic value (diagnostic only, never compared)
}

func (o Outcome) Key() string { return o.Class + ":" + o.Canon }

func digest(b []byte) string {
	h := sha256.Sum256(b)
	return hex.EncodeToString(h[:10])
}

func canonJSON(b []byte) string {
	dec := json.NewDecoder(bytes.NewReader(b))
	dec.UseNumber()
	var v interface{}
	if err := dec.Decode(&v); err != nil {
		// not parseable: compare an order-insensitive digest (object members may
		// legitimately come out in any order), weaker but free of false alarms
		sorted := append([]byte{}, b...)
		sort.Slice(sorted, func(i, j int) bool { return sorted[i] < sorted[j] })
		return "invalid-json:" + digest(sorted)
	}
	out, err := json.Marshal(v) // map keys sorted
	if err != nil {
		return "unmarshalable:" + digest(b)
	}
	return digest(out)
}

func canonProto(m proto.Message) string {
	b, err := proto.MarshalOptions{Deterministic: true}.Marshal(m)
	if err != nil {
		return "marshal-error"
	}
	return digest(b)
}

// prepared inputs are computed once per op (outside any simulation), so every
// execution of the op sees byte-identical input.
type Prepared struct {
	Spec   OpSpec
	TI     *TypeInfo
	Msg    proto.Message // populated message (cloned per execution unless Shared)
	Shared bool
	JSON   []byte
	Query  url.Values
	Any    *any_j5t.Any
}

func prepare(spec OpSpec) *Prepared {
	ti := typeByKey(spec.Type)
	if ti == nil {
		panic("unknown type " + spec.Type)
	}
	p := &Prepared{Spec: spec, TI: ti}
	m := newPopulated(ti, spec.ValSeed)
	if spec.Poison != 0 {
		poison(m, spec.Poison)
	}
	p.Msg = proto.Clone(m.Interface()) // the cloned form: shared and per-execution inputs are the same value
	if spec.NilOneof {
		nilOneofInner(p.Msg) // after the clone, which would fill the pointer in; generated messages only
	}
	switch spec.Kind {
	case "decode":
		js, err := safeEncode(codec.NewCodec(), m)
		if err != nil {
			js = []byte(`{}`)
		}
		p.JSON = mutateJSON(js, spec.Mutate, spec.ValSeed)
	case "query":
		p.Query = buildQuery(m, spec.Mutate, spec.ValSeed)
	case "decode_any":
		js, err := safeEncode(codec.NewCodec(), m)
		a := &any_j5t.Any{TypeName: ti.Name}
		if err == nil && spec.ValSeed%2 == 0 {
			a.J5Json = mutateJSON(js, spec.Mutate, spec.ValSeed)
		} else {
			a.Proto, _ = proto.MarshalOptions{Deterministic: true}.Marshal(p.Msg)
		}
		// the clone is what every execution sees (proto.Clone turns an empty non-nil bytes field into
		// nil, which DecodeAnyTo tells apart): shared and per-execution inputs must be the same value
		p.Any = proto.Clone(a).(*any_j5t.Any)
	}
	return p
}

// poison makes the message un-encodable in a way that is only discovered after
// part of the output has been produced: the LAST suitable top-level field gets
// an enum number outside the enum (1) or a string that is not valid UTF-8 (2).
func poison(m protoreflect.Message, kind int) {
	fields := m.Descriptor().Fields()
	for i := fields.Len() - 1; i >= 0; i-- {
		fd := fields.Get(i)
		if fd.IsList() || fd.IsMap() || fd.ContainingOneof() != nil {
			continue
		}
		if kind == 1 && fd.Kind() == protoreflect.EnumKind {
			m.Set(fd, protoreflect.ValueOfEnum(9999))
			return
		}
		if kind == 2 && fd.Kind() == protoreflect.StringKind {
			m.Set(fd, protoreflect.ValueOfString("bad\xff\xfeutf8"))
			return
		}
	}
	// no suitable field of the requested kind: try the other kind
	for i := fields.Len() - 1; i >= 0; i-- {
		fd := fields.Get(i)
		if fd.IsList() || fd.IsMap() || fd.ContainingOneof() != nil {
			continue
		}
		if fd.Kind() == protoreflect.EnumKind {
			m.Set(fd, protoreflect.ValueOfEnum(9999))
			return
		}
		if fd.Kind() == protoreflect.StringKind {
			m.Set(fd, protoreflect.ValueOfString("bad\xff\xfeutf8"))
			return
		}
	}
}

func safeEncode(c *codec.Codec, m protoreflect.Message) (b []byte, err error) {
	defer func() {
		if r := recover(); r != nil {
			err = fmt.Errorf("panic: %v", r)
		}
	}()
	return c.ProtoToJSON(m)
}

var camelKey = regexp.MustCompile(`"([a-z][a-z0-9]*[A-Z][A-Za-z0-9]*)":`)

func mutateJSON(js []byte, k int, seed uint64) []byte {
	if k == 0 || len(js) == 0 {
		return js
	}
	rng := simrt.NewRng(simrt.Derive(seed, uint64(k), 77))
	out := append([]byte{}, js...)
	if k >= 7 {
		return mutateTree(out, rng)
	}
	if k >= 6 {
		// the proto (snake_case) spelling of the first camelCase key: not a J5 JSON name
		if m := camelKey.FindSubmatchIndex(out); m != nil {
			key := string(out[m[2]:m[3]])
			var sb strings.Builder
			for _, r := range key {
				if r >= 'A' && r <= 'Z' {
					sb.WriteByte('_')
					sb.WriteRune(r + 32)
				} else {
					sb.WriteRune(r)
				}
			}
			return append(append(append([]byte{}, out[:m[2]]...), sb.String()...), out[m[3]:]...)
		}
	}
	if k >= 5 {
		// structurally valid JSON that a nested any rejects: drop its "!type" member
		if i := bytes.Index(out, []byte(`"!type":"`)); i >= 0 {
			if j := bytes.IndexByte(out[i+9:], '"'); j >= 0 {
				end := i + 9 + j + 1
				if end < len(out) && out[end] == ',' {
					end++
				}
				return append(out[:i:i], out[end:]...)
			}
		}
		return append([]byte(`{"zzUnknownKey":1,`), out[1:]...)
	}
	switch k % 4 {
	case 1: // truncate
		return out[:rng.Intn(len(out))]
	case 2: // unknown key
		return append([]byte(`{"zzUnknownKey":1,`), out[1:]...)
	case 3: // flip a byte
		i := rng.Intn(len(out))
		out[i] = "x{[\"1"[rng.Intn(5)]
		return out
	default: // wrong type for everything
		return []byte(`{"sString":{"a":1},"enum":"NOPE"}`)
	}
}

// mutateTree applies one or two structural changes at seeded positions of the
// JSON document: every decoder path that rejects (or tolerates) a value of
// the wrong shape is reachable this way.
func mutateTree(js []byte, rng *simrt.Rng) []byte {
	dec := json.NewDecoder(bytes.NewReader(js))
	dec.UseNumber()
	var doc interface{}
	if err := dec.Decode(&doc); err != nil {
		return append([]byte(`{"zzUnknownKey":1,`), js[1:]...)
	}
	// collect the addressable nodes in a deterministic (sorted key) order
	type slot struct {
		get func() interface{}
		set func(interface{})
		del func()
	}
	var slots []slot
	var walk func(v interface{}, depth int)
	walk = func(v interface{}, depth int) {
		switch t := v.(type) {
		case map[string]interface{}:
			keys := make([]string, 0, len(t))
			for k := range t {
				keys = append(keys, k)
			}
			sort.Strings(keys)
			for _, k := range keys {
				k := k
				slots = append(slots, slot{
					get: func() interface{} { return t[k] },
					set: func(n interface{}) { t[k] = n },
					del: func() { delete(t, k) },
				})
				walk(t[k], depth+1)
			}
		case []interface{}:
			for i := range t {
				i := i
				slots = append(slots, slot{
					get: func() interface{} { return t[i] },
					set: func(n interface{}) { t[i] = n },
					del: func() { t[i] = nil },
				})
				walk(t[i], depth+1)
			}
		}
	}
	walk(doc, 0)
	if len(slots) == 0 {
		return []byte(`{"zzUnknownKey":1}`)
	}
	n := 1 + rng.Intn(2)
	for i := 0; i < n; i++ {
		sl := slots[rng.Intn(len(slots))]
		cur := sl.get()
		switch rng.Intn(12) {
		case 0:
			sl.set(nil)
		case 1:
			sl.set(json.Number("12345678901234567890123"))
		case 2:
			sl.set("zz-not-a-value")
		case 3:
			sl.set(true)
		case 4:
			sl.set(map[string]interface{}{})
		case 5:
			sl.set([]interface{}{})
		case 6:
			sl.set([]interface{}{cur, cur})
		case 7:
			sl.set(map[string]interface{}{"zzWrapped": cur})
		case 8:
			sl.del()
		case 9:
			sl.set(json.Number("-1.5e3"))
		case 10:
			if s, ok := cur.(string); ok {
				sl.set(s + "\u0000\ufffd ") // still a string, rarely still valid for its format
			} else {
				sl.set("")
			}
		default:
			if m, ok := cur.(map[string]interface{}); ok {
				m["zzUnknownKey"] = 1
				m["!type"] = "zz.no.such.v1.Type"
			} else {
				sl.set(map[string]interface{}{"!type": "zz.no.such.v1.Type", "value": cur})
			}
		}
	}
	b, err := json.Marshal(doc)
	if err != nil {
		return js
	}
	return b
}

func buildQuery(m protoreflect.Message, mutate int, seed uint64) url.Values {
	q := url.Values{}
	rng := simrt.NewRng(simrt.Derive(seed, 0x71))
	fields := m.Descriptor().Fields()
	var scalars, containers []string
	for i := 0; i < fields.Len() && len(q) < 3; i++ {
		fd := fields.Get(i)
		if fd.IsMap() || !m.Has(fd) || fd.ContainingOneof() != nil {
			continue
		}
		name := fd.JSONName()
		if rng.Bool(0.2) {
			name = string(fd.Name()) // the query decoder accepts the snake_case spelling too
		}
		switch {
		case fd.IsList():
			if fd.Kind() == protoreflect.StringKind || fd.Kind() == protoreflect.Int32Kind {
				l := m.Get(fd).List()
				for j := 0; j < l.Len(); j++ {
					q.Add(name, l.Get(j).String())
				}
			}
		case fd.Kind() == protoreflect.MessageKind:
			sub := m.Get(fd).Message()
			switch rng.Intn(4) {
			case 0, 1:
				js, err := safeEncode(codec.NewCodec(), sub)
				if err == nil {
					q.Set(name, string(js))
					containers = append(containers, name)
				}
			case 2:
				// dotted paths to the scalar members of the nested message (not into the well-known
				// and j5 scalar-like messages: timestamps, dates, decimals are not containers, and
				// the query would fail on that whatever else it carries)
				if n := string(sub.Descriptor().FullName()); strings.HasPrefix(n, "google.protobuf.") || strings.HasPrefix(n, "j5.types.") {
					break
				}
				sf := sub.Descriptor().Fields()
				for j := 0; j < sf.Len() && len(q) < 4; j++ {
					sfd := sf.Get(j)
					if sfd.IsList() || sfd.IsMap() || sfd.ContainingOneof() != nil || !sub.Has(sfd) {
						continue
					}
					switch sfd.Kind() {
					case protoreflect.StringKind, protoreflect.Int32Kind, protoreflect.Int64Kind, protoreflect.BoolKind, protoreflect.Uint32Kind, protoreflect.Uint64Kind:
						q.Set(name+"."+sfd.JSONName(), sub.Get(sfd).String())
					}
				}
			}
		case fd.Kind() == protoreflect.EnumKind:
			q.Set(name, string(fd.Enum().Values().ByNumber(m.Get(fd).Enum()).Name()))
			scalars = append(scalars, name)
		case fd.Kind() == protoreflect.BytesKind:
		default:
			q.Set(name, m.Get(fd).String())
			scalars = append(scalars, name)
		}
	}
	pick := func(l []string) string {
		if len(l) == 0 {
			return ""
		}
		return l[rng.Intn(len(l))]
	}
	switch mutate {
	case 0:
	case 2: // two values for a single-valued field
		if k := pick(scalars); k != "" {
			q.Add(k, q.Get(k))
		} else {
			q.Set("zzNoSuchField", "1")
		}
	case 3: // a value the field's type rejects
		if k := pick(scalars); k != "" {
			q.Set(k, "zz-not-a-value-\xff")
		} else {
			q.Set("zzNoSuchField", "1")
		}
	case 4: // a path through something that is not a container, or to a member that does not exist
		if k := pick(scalars); k != "" && rng.Bool(0.5) {
			q.Set(k+".x", "1")
		} else if k := pick(containers); k != "" {
			q.Set(k+".zzNoSuchField", "1")
		} else {
			q.Set("zzNoSuchField.x", "1")
		}
	case 5, 7, 8, 9: // malformed JSON for a nested message
		if k := pick(containers); k != "" {
			q.Set(k, string(mutateJSON([]byte(q.Get(k)), mutate, seed)))
		} else {
			q.Set("zzNoSuchField", "1")
		}
	default:
		q.Set("zzNoSuchField", "1")
	}
	return q
}

// inputMsg is the message an encode-type operation passes to the codec.
func inputMsg(p *Prepared) protoreflect.Message {
	if p.Shared {
		return p.Msg.ProtoReflect()
	}
	return proto.Clone(p.Msg).ProtoReflect()
}

// execOp runs one operation against the shared environment and
// canonicalises its result.
func inputAny(p *Prepared) *any_j5t.Any {
	if p.Shared {
		return p.Any
	}
	return proto.Clone(p.Any).(*any_j5t.Any)
}

func execOp(e *Env, p *Prepared) (out Outcome) {
	defer func() {
		if r := recover(); r != nil {
			out = Outcome{Class: "panic", Text: fmt.Sprintf("%v\n%s", r, trimStack(debug.Stack()))}
		}
	}()
	fail := func(err error) Outcome { return Outcome{Class: "error", Text: err.Error()} }
	if e.codec2 != nil && p.Spec.ValSeed&16 != 0 {
		e = &Env{codec: e.codec2}
	}
	refl := e.refl
	switch p.Spec.Kind {
	case "encode":
		msg := inputMsg(p)
		if e.codec == nil {
			return walkOp(refl, msg)
		}
		b, err := e.codec.ProtoToJSON(msg)
		if err != nil {
			return fail(err)
		}
		return Outcome{Class: "ok", Canon: canonJSON(b)}
	case "decode":
		msg := p.TI.Type.New()
		if e.codec == nil {
			return walkOp(refl, inputMsg(p))
		}
		if err := e.codec.JSONToProto(p.JSON, msg); err != nil {
			return fail(err)
		}
		return Outcome{Class: "ok", Canon: canonProto(msg.Interface())}
	case "query":
		msg := p.TI.Type.New()
		if e.codec == nil {
			return schemaOp(e, p)
		}
		if err := e.codec.QueryToProto(cloneValues(p.Query), msg); err != nil {
			return fail(err)
		}
		return Outcome{Class: "ok", Canon: canonProto(msg.Interface())}
	case "encode_any":
		msg := inputMsg(p)
		if e.codec == nil {
			return walkOp(refl, msg)
		}
		a, err := e.codec.EncodeAny(msg)
		if err != nil {
			return fail(err)
		}
		// the wire bytes come from a plain proto.Marshal, whose field order is unspecified
		// (and really varies for dynamicpb messages): compare the decoded message
		pm := p.TI.Type.New().Interface()
		pcanon := "undecodable:" + digest(a.Proto)
		if err := proto.Unmarshal(a.Proto, pm); err == nil {
			pcanon = canonProto(pm)
		}
		return Outcome{Class: "ok", Canon: a.TypeName + "/" + canonJSON(a.J5Json) + "/" + pcanon}
	case "decode_any":
		msg := p.TI.Type.New().Interface()
		if e.codec == nil {
			return schemaOp(e, p)
		}
		if err := e.codec.DecodeAnyTo(inputAny(p), msg); err != nil {
			return fail(err)
		}
		return Outcome{Class: "ok", Canon: canonProto(msg)}
	case "fill":
		// first use of several hundred distinct small types in one call: makes the shared cache large
		start, n := int(p.Spec.ValSeed%1600), 550+int((p.Spec.ValSeed>>16)%300)
		h := sha256.New()
		for i := 0; i < n; i++ {
			mt := fillTypes[(start+i)%len(fillTypes)]
			m := mt.New()
			m.Set(mt.Descriptor().Fields().ByName("note"), protoreflect.ValueOfString("n"))
			m.Set(mt.Descriptor().Fields().ByName("kind"), protoreflect.ValueOfEnum(1))
			if e.codec == nil {
				r := refl
				if r == nil {
					return Outcome{Class: "ok", Canon: "no-reflector"}
				}
				root, err := r.NewRoot(m)
				if err != nil || root == nil {
					return Outcome{Class: "error", Text: fmt.Sprintf("fill %s: NewRoot: %v", mt.Descriptor().Name(), err)}
				}
				h.Write([]byte(mt.Descriptor().Name()))
				continue
			}
			b, err := e.codec.ProtoToJSON(m)
			if err != nil {
				return Outcome{Class: "error", Text: fmt.Sprintf("fill %s: %v", mt.Descriptor().Name(), err)}
			}
			h.Write(b)
		}
		return Outcome{Class: "ok", Canon: hex.EncodeToString(h.Sum(nil)[:10])}
	case "soak":
		// the same (usually failing) call many times over: whatever a failure leaks - a counter, a
		// depth, an entry in some list - accumulates on the shared object
		n := 35 + int((p.Spec.ValSeed>>20)%40)
		classes := map[string]int{}
		var last Outcome
		for i := 0; i < n; i++ {
			q := *p
			q.Spec.Kind = "encode"
			last = execOp(e, &q)
			classes[last.Class]++
		}
		if len(classes) > 1 {
			return Outcome{Class: "error", Text: fmt.Sprintf("the same call repeated %d times did not keep giving the same kind of result: %v", n, classes)}
		}
		return last
	case "walk":
		msg := inputMsg(p)
		if refl == nil {
			// codec environments: exercise the reflector through a second codec call instead
			b, err := e.codec.ProtoToJSON(msg)
			if err != nil {
				return fail(err)
			}
			return Outcome{Class: "ok", Canon: canonJSON(b)}
		}
		if e.refl2 != nil && p.Spec.ValSeed%2 == 1 {
			refl = e.refl2
		}
		return walkOp(refl, msg)
	case "schema":
		return schemaOp(e, p)
	}
	return Outcome{Class: "error", Text: "unknown op kind " + p.Spec.Kind}
}

func cloneValues(v url.Values) url.Values {
	out := url.Values{}
	for k, vs := range v {
		out[k] = append([]string{}, vs...)
	}
	return out
}

func walkOp(refl *j5reflect.Reflector, msg protoreflect.Message) Outcome {
	root, err := refl.NewRoot(msg)
	if err != nil {
		return Outcome{Class: "error", Text: err.Error()}
	}
	if root == nil {
		return Outcome{Class: "error", Text: "NewRoot returned nil root and nil error"}
	}
	var sb strings.Builder
	var walk func(ps j5reflect.PropertySet, depth int) error
	walk = func(ps j5reflect.PropertySet, depth int) error {
		sb.WriteString(ps.SchemaName())
		sb.WriteString("{")
		err := ps.RangeValues(func(f j5reflect.Field) error {
			sb.WriteString(f.NameInParent())
			sb.WriteString(":")
			sb.WriteString(f.FullTypeName())
			sb.WriteString(",")
			if c, ok := f.AsContainer(); ok && depth < 6 {
				return walk(c, depth+1)
			}
			return nil
		})
		sb.WriteString("}")
		return err
	}
	if err := walk(root, 0); err != nil {
		return Outcome{Class: "error", Text: err.Error()}
	}
	return Outcome{Class: "ok", Canon: digest([]byte(sb.String()))}
}

func schemaOp(e *Env, p *Prepared) Outcome {
	if e.cache == nil {
		if e.refl != nil {
			return walkOp(e.refl, inputMsg(p))
		}
		b, err := e.codec.ProtoToJSON(inputMsg(p))
		if err != nil {
			return Outcome{Class: "error", Text: err.Error()}
		}
		return Outcome{Class: "ok", Canon: canonJSON(b)}
	}
	s, err := e.cache.Schema(p.TI.Desc)
	if err != nil {
		return Outcome{Class: "error", Text: err.Error()}
	}
	return Outcome{Class: "ok", Canon: s.FullName() + "/" + canonProto(s.ToJ5Root())}
}

func trimStack(b []byte) string {
	lines := strings.Split(string(b), "\n")
	var keep []string
	for _, l := range lines {
		if strings.Contains(l, "pentops/j5/") && !strings.Contains(l, "zzverif") {
			keep = append(keep, strings.TrimSpace(l))
		}
		if len(keep) >= 8 {
			break
		}
	}
	return strings.Join(keep, "\n")
}

// ---------------------------------------------------------------- workload generation

var codecKinds = []string{"new", "new", "new", "proto_to_any", "global", "reflector", "shared_cache", "resolver", "resolver_proto_to_any", "two_codecs", "narrow_resolver", "narrow_resolver_proto_to_any"}
var opKinds = []string{"encode", "encode", "encode", "decode", "decode", "query", "encode_any", "decode_any", "walk", "schema"}

func genWorkload(seed uint64, deep bool) *Workload {
	rng := simrt.NewRng(simrt.Derive(seed, 0xc10))
	w := &Workload{Codec: codecKinds[rng.Intn(len(codecKinds))]}
	if len(clashTypes) > 0 && rng.Bool(0.015) {
		// distinct types with one J5 schema name (known finding): a workload of their own
		w.Codec = []string{"new", "global", "shared_cache", "reflector"}[rng.Intn(4)]
		for t, n := 0, 2+rng.Intn(2); t < n; t++ {
			var ops []OpSpec
			for i, k := 0, 1+rng.Intn(2); i < k; i++ {
				ti := clashTypes[rng.Intn(len(clashTypes))]
				ops = append(ops, OpSpec{Kind: []string{"encode", "decode", "walk", "schema"}[rng.Intn(4)], Type: ti.key(), ValSeed: rng.Uint64()})
			}
			w.Tasks = append(w.Tasks, ops)
		}
		return w
	}
	// type pool for this run
	var pool []*TypeInfo
	shape := rng.Float64()
	switch {
	case shape < 0.30: // everyone hits the same type first
		pool = []*TypeInfo{pickGood(rng)}
		if rng.Bool(0.25) {
			pool = []*TypeInfo{catByName["test.schema.v1.FullSchema"]} // any chains, flattening, every oneof flavour
		}
	case shape < 0.65: // one package: shared sub-schemas, mutual references
		pk := byPkg[pkgNames[rng.Intn(len(pkgNames))]]
		if cyc := byPkg["test.zzcyc.v1"]; len(cyc) > 0 && rng.Bool(0.12) {
			pk = cyc // reference cycles with flattened edges: first-use order must not matter
		}
		n := 2 + rng.Intn(3)
		for i := 0; i < n; i++ {
			pool = append(pool, pk[rng.Intn(len(pk))])
		}
	default: // anything, possibly disjoint
		n := 2 + rng.Intn(4)
		for i := 0; i < n; i++ {
			pool = append(pool, pickGood(rng))
		}
	}
	if genTypesEnabled && rng.Bool(0.15) {
		// schema shapes nobody wrote by hand: 2-5 message types of one generated bundle
		if tis := genBundle(rng.Intn(genBundles)); len(tis) > 0 {
			pool = nil
			for i, n := 0, 2+rng.Intn(4); i < n; i++ {
				pool = append(pool, tis[rng.Intn(len(tis))])
			}
		}
	}
	if len(twinList) > 0 && rng.Bool(0.12) {
		// a generated type and its dynamic twin (same full name, other descriptor) side by side
		tw := twinList[rng.Intn(len(twinList))]
		pool = append(pool, tw, catByName[tw.Name])
	}
	if len(badTypes) > 0 && rng.Bool(0.10) {
		pool = append(pool, badTypes[rng.Intn(len(badTypes))]) // failing first use
		if rng.Bool(0.5) {
			pool = append(pool, badTypes[rng.Intn(len(badTypes))]) // and a second failing type, possibly sharing the nested culprit
		}
		if rng.Bool(0.7) {
			// and successful users of the sub-schemas the failed build leaves behind
			for _, n := range []string{"test.zzbad.v1.Good", "test.zzbad.v1.Mid", "test.zzbad.v1.Leaf"} {
				if ti := catByName[n]; ti != nil && rng.Bool(0.6) {
					pool = append(pool, ti)
				}
			}
			// the healthy messages the failing types refer to directly, as roots of their own
			for _, bt := range pool {
				if bt.Reflectable {
					continue
				}
				fields := bt.Desc.Fields()
				for i := 0; i < fields.Len(); i++ {
					if fd := fields.Get(i); fd.Kind() == protoreflect.MessageKind && !fd.IsMap() {
						if ti := catByName[string(fd.Message().FullName())]; ti != nil && ti.Reflectable && rng.Bool(0.4) {
							pool = append(pool, ti)
						}
					}
				}
			}
		}
	}
	if strings.HasPrefix(w.Codec, "narrow_resolver") {
		// messages of the hidden types as roots next to messages that carry them inside an Any
		for _, h := range hiddenTypes {
			if rng.Bool(0.7) {
				pool = append(pool, catByName[h])
			}
		}
		pool = append(pool, catByName["test.schema.v1.FullSchema"])
	}
	maxTasks, maxOps := 4, 3
	if deep {
		maxTasks, maxOps = 5, 5
	}
	nTasks := 2 + rng.Intn(maxTasks-1)
	burst := rng.Bool(0.06)
	if burst {
		// a burst: many callers, one call each (limits, counters and pools that only
		// misbehave above a handful of concurrent users)
		nTasks = 6 + rng.Intn(6)
		maxOps = 1
	}
	// "chain" workloads: every value of a type with a google.protobuf.Any field carries a chain of
	// nested anys, so that several tasks are inside re-entrant codec calls at the same time
	chains := len(pool) == 1 && pool[0].Name == "test.schema.v1.FullSchema" && rng.Bool(0.5)
	// malformed inputs come in families: half of a workload's malformed inputs are of one kind, and
	// one workload in seven is an "error storm" where most decode-type inputs are malformed
	favMutate := []int{1, 2, 3, 4, 5, 6, 6, 7, 8, 9}[rng.Intn(10)]
	mutateProb := 0.2
	if rng.Bool(0.15) {
		mutateProb = 0.7
	}
	mkOp := func() OpSpec {
		ti := pool[rng.Intn(len(pool))]
		op := OpSpec{Kind: opKinds[rng.Intn(len(opKinds))], Type: ti.key(), ValSeed: rng.Uint64()}
		if chains {
			op.ValSeed &^= 3 // newPopulated builds a chain when ValSeed%4 == 0
			if rng.Bool(0.7) {
				op.Kind = []string{"encode", "encode_any", "walk"}[rng.Intn(3)]
			}
		}
		if (op.Kind == "decode" || op.Kind == "query" || op.Kind == "decode_any") && rng.Bool(mutateProb) {
			op.Mutate = []int{1, 2, 3, 4, 5, 5, 5, 6, 6, 7, 8, 9}[rng.Intn(12)] // (usually) failing operation by construction; 7..9 are seeded tree mutations
			if rng.Bool(0.5) {
				op.Mutate = favMutate // several tasks on the same unusual input path at once
			}
		}
		if (op.Kind == "encode" || op.Kind == "encode_any" || op.Kind == "walk") && rng.Bool(0.12) {
			op.Poison = 1 + rng.Intn(2) // failing encode: fails after part of the output was written
		}
		return op
	}
	// shared input instances: a few common specs that several tasks execute on the very same message
	var common []OpSpec
	if rng.Bool(0.15) {
		w.SharedInputs = true
		for i, n := 0, 1+rng.Intn(3); i < n; i++ {
			op := mkOp()
			op.Kind = []string{"encode", "encode", "encode_any", "walk", "decode_any"}[rng.Intn(5)]
			if op.Kind != "decode_any" {
				op.Mutate = 0
				op.NilOneof = rng.Bool(0.5)
			} else {
				op.Poison = 0
			}
			common = append(common, op)
		}
	}
	for t := 0; t < nTasks; t++ {
		n := 1 + rng.Intn(maxOps)
		var ops []OpSpec
		for i := 0; i < n; i++ {
			if len(common) > 0 && rng.Bool(0.6) {
				ops = append(ops, common[rng.Intn(len(common))])
				continue
			}
			ops = append(ops, mkOp())
		}
		w.Tasks = append(w.Tasks, ops)
	}
	if rng.Bool(0.3) {
		n := 1 + rng.Intn(2)
		for i := 0; i < n; i++ {
			w.Warm = append(w.Warm, mkOp())
		}
	}
	if len(badTypes) > 0 && rng.Bool(0.02) {
		// a LONG history of failures on the shared object before (and while) the others work: a type
		// whose first use fails, 35-75 times over, then its healthy relatives
		bt := badTypes[rng.Intn(len(badTypes))]
		soak := OpSpec{Kind: "soak", Type: bt.key(), ValSeed: rng.Uint64()}
		if rng.Bool(0.6) {
			w.Warm = append(w.Warm, soak)
		} else {
			w.Tasks = append(w.Tasks, []OpSpec{soak})
		}
		fields := bt.Desc.Fields()
		var rel []OpSpec
		for i := 0; i < fields.Len(); i++ {
			if fd := fields.Get(i); fd.Kind() == protoreflect.MessageKind && !fd.IsMap() {
				if ti := catByName[string(fd.Message().FullName())]; ti != nil && ti.Reflectable {
					rel = append(rel, OpSpec{Kind: []string{"encode", "decode", "schema"}[rng.Intn(3)], Type: ti.key(), ValSeed: rng.Uint64()})
				}
			}
		}
		for _, n := range []string{"test.zzbad.v1.Good", "test.zzbad.v1.Mid"} {
			if strings.HasPrefix(bt.Name, "test.zzbad.") {
				rel = append(rel, OpSpec{Kind: "encode", Type: n, ValSeed: rng.Uint64()})
			}
		}
		if len(rel) > 0 {
			t := rng.Intn(len(w.Tasks))
			w.Tasks[t] = append(w.Tasks[t], rel[rng.Intn(len(rel))])
			if len(rel) > 1 {
				t = rng.Intn(len(w.Tasks))
				w.Tasks[t] = append(w.Tasks[t], rel[rng.Intn(len(rel))])
			}
		}
	}
	if rng.Bool(0.012) {
		// a LARGE shared cache: one more task (and, half of the time, the warm-up too) first-uses
		// 550-850 small types (two cache entries each) while the others work
		fill := func() OpSpec {
			return OpSpec{Kind: "fill", Type: "test.zzbad.v1.Leaf", ValSeed: rng.Uint64()}
		}
		if rng.Bool(0.5) {
			w.Warm = append(w.Warm, fill())
		}
		w.Tasks = append(w.Tasks, []OpSpec{fill()})
	}
	return w
}
