package main

import (
	"context"
	"fmt"
	"sort"
	"strings"

	"github.com/bufbuild/protocompile"
	"google.golang.org/protobuf/proto"
	"google.golang.org/protobuf/reflect/protodesc"
	"google.golang.org/protobuf/reflect/protoreflect"
	"google.golang.org/protobuf/reflect/protoregistry"
	"google.golang.org/protobuf/types/descriptorpb"
	"google.golang.org/protobuf/types/dynamicpb"
)

// Types that J5 cannot reflect (their schema build aborts half-way and leaves
// placeholders in the shared cache), plus reflectable types that share
// sub-schemas with them. They give the workload "failing first use" next to
// successful users of the same sub-schemas. Built from literal descriptors and
// registered in the global registries so that Any resolution finds them.
func registerDynamicTypes() {
	str := descriptorpb.FieldDescriptorProto_TYPE_STRING.Enum()
	msg := descriptorpb.FieldDescriptorProto_TYPE_MESSAGE.Enum()
	opt := descriptorpb.FieldDescriptorProto_LABEL_OPTIONAL.Enum()
	rep := descriptorpb.FieldDescriptorProto_LABEL_REPEATED.Enum()
	f := func(name string, num int32, t *descriptorpb.FieldDescriptorProto_Type, typeName string, label *descriptorpb.FieldDescriptorProto_Label) *descriptorpb.FieldDescriptorProto {
		fd := &descriptorpb.FieldDescriptorProto{Name: proto.String(name), Number: proto.Int32(num), Type: t, Label: label, JsonName: proto.String(name)}
		if typeName != "" {
			fd.TypeName = proto.String(typeName)
		}
		return fd
	}
	fdp := &descriptorpb.FileDescriptorProto{
		Name:    proto.String("test/zzbad/v1/bad.proto"),
		Syntax:  proto.String("proto3"),
		Package: proto.String("test.zzbad.v1"),
		MessageType: []*descriptorpb.DescriptorProto{
			{Name: proto.String("Leaf"), Field: []*descriptorpb.FieldDescriptorProto{
				f("a", 1, str, "", opt), f("more", 2, str, "", rep)}},
			{Name: proto.String("Mid"), Field: []*descriptorpb.FieldDescriptorProto{
				f("leaf", 1, msg, ".test.zzbad.v1.Leaf", opt), f("name", 2, str, "", opt)}},
			// fixed32 has no J5 representation: building this schema fails after Leaf/Mid were linked
			{Name: proto.String("HasFixed"), Field: []*descriptorpb.FieldDescriptorProto{
				f("mid", 1, msg, ".test.zzbad.v1.Mid", opt),
				f("x", 2, descriptorpb.FieldDescriptorProto_TYPE_FIXED32.Enum(), "", opt),
				f("leaf", 3, msg, ".test.zzbad.v1.Leaf", opt)}},
			// fails in a nested build: Outer -> HasFixed
			{Name: proto.String("Outer"), Field: []*descriptorpb.FieldDescriptorProto{
				f("s", 1, str, "", opt),
				f("leaves", 2, msg, ".test.zzbad.v1.Leaf", rep),
				f("bad", 3, msg, ".test.zzbad.v1.HasFixed", opt)}},
			// a second type that fails only in the nested build of the same HasFixed
			{Name: proto.String("Outer2"), Field: []*descriptorpb.FieldDescriptorProto{
				f("t", 1, str, "", opt),
				f("mid", 2, msg, ".test.zzbad.v1.Mid", opt),
				f("bad", 3, msg, ".test.zzbad.v1.HasFixed", opt),
				f("leaf", 4, msg, ".test.zzbad.v1.Leaf", opt)}},
			// fine, shares Leaf and Mid with the failing ones
			{Name: proto.String("Good"), Field: []*descriptorpb.FieldDescriptorProto{
				f("mid", 1, msg, ".test.zzbad.v1.Mid", opt), f("leaf", 2, msg, ".test.zzbad.v1.Leaf", opt),
				f("self", 3, msg, ".test.zzbad.v1.Good", opt)}},
		},
	}
	fd, err := protodesc.NewFile(fdp, protoregistry.GlobalFiles)
	if err != nil {
		panic(err)
	}
	if err := protoregistry.GlobalFiles.RegisterFile(fd); err != nil {
		panic(err)
	}
	for i := 0; i < fd.Messages().Len(); i++ {
		if err := protoregistry.GlobalTypes.RegisterMessage(dynamicpb.NewMessageType(fd.Messages().Get(i))); err != nil {
			panic(err)
		}
	}
}

// twinTypes builds, for a few generated files, a second set of descriptors with the same full
// names (as a process that loads descriptors at run time next to its generated code has them):
// dynamic "twins" of generated messages. Schemas are cached by name, so a twin and its generated
// sibling share a schema while every call must still use its own message descriptor.
func twinTypes() []protoreflect.MessageType {
	// an independent registry: every file the twins need, including the well-known types and the
	// j5 types they use, is re-created in it, so that e.g. the twin of FullSchema refers to a twin
	// of google.protobuf.Any and not to the generated descriptor
	private := &protoregistry.Files{}
	var clone func(path string) (protoreflect.FileDescriptor, error)
	clone = func(path string) (protoreflect.FileDescriptor, error) {
		if fd, err := private.FindFileByPath(path); err == nil {
			return fd, nil
		}
		gen, err := protoregistry.GlobalFiles.FindFileByPath(path)
		if err != nil {
			return nil, err
		}
		imports := gen.Imports()
		for i := 0; i < imports.Len(); i++ {
			if _, err := clone(imports.Get(i).Path()); err != nil {
				return nil, err
			}
		}
		fd, err := protodesc.NewFile(protodesc.ToFileDescriptorProto(gen), private)
		if err != nil {
			return nil, err
		}
		if err := private.RegisterFile(fd); err != nil {
			return nil, err
		}
		return fd, nil
	}
	var out []protoreflect.MessageType
	for _, path := range []string{"test/schema/v1/full_schema.proto", "test/foo/v1/foo.proto"} {
		twin, err := clone(path)
		if err != nil {
			continue
		}
		for i := 0; i < twin.Messages().Len(); i++ {
			out = append(out, dynamicpb.NewMessageType(twin.Messages().Get(i)))
		}
	}
	return out
}

// ---------------------------------------------------------------- types from proto source

// compileProtoSources compiles hand-written proto source against the files linked into the
// harness and registers the result (dynamic message types) in the global registries. Options are
// re-parsed through the wire form so that j5 extensions are the generated extension types.
func compileProtoSources(srcs map[string]string) []protoreflect.FileDescriptor {
	var names []string
	for n := range srcs {
		names = append(names, n)
	}
	sort.Strings(names)
	comp := protocompile.Compiler{
		Resolver: protocompile.CompositeResolver{
			&protocompile.SourceResolver{Accessor: protocompile.SourceAccessorFromMap(srcs)},
			protocompile.ResolverFunc(func(path string) (protocompile.SearchResult, error) {
				fd, err := protoregistry.GlobalFiles.FindFileByPath(path)
				if err != nil {
					return protocompile.SearchResult{}, err
				}
				return protocompile.SearchResult{Desc: fd}, nil
			}),
		},
	}
	files, err := comp.Compile(context.Background(), names...)
	if err != nil {
		panic(fmt.Sprintf("harness proto source does not compile: %v", err))
	}
	var out []protoreflect.FileDescriptor
	// dependency order: a file only after the harness files it imports
	done := map[string]bool{}
	var reg func(name string)
	reg = func(name string) {
		if done[name] {
			return
		}
		done[name] = true
		f := files.FindFileByPath(name)
		if f == nil {
			return
		}
		imps := f.Imports()
		for i := 0; i < imps.Len(); i++ {
			if _, mine := srcs[imps.Get(i).Path()]; mine {
				reg(imps.Get(i).Path())
			}
		}
		b, err := proto.Marshal(protodesc.ToFileDescriptorProto(f))
		if err != nil {
			panic(err)
		}
		fdp := &descriptorpb.FileDescriptorProto{}
		if err := proto.Unmarshal(b, fdp); err != nil {
			panic(err)
		}
		fd, err := protodesc.NewFile(fdp, protoregistry.GlobalFiles)
		if err != nil {
			panic(err)
		}
		if err := protoregistry.GlobalFiles.RegisterFile(fd); err != nil {
			panic(err)
		}
		for i := 0; i < fd.Messages().Len(); i++ {
			if err := protoregistry.GlobalTypes.RegisterMessage(dynamicpb.NewMessageType(fd.Messages().Get(i))); err != nil {
				panic(err)
			}
		}
		out = append(out, fd)
	}
	for _, n := range names {
		reg(n)
	}
	return out
}

// registerSourceTypes adds
//   - test.zzcyc.v1: reference cycles with flattened edges inside them (what a flattened field
//     looks like must not depend on which member of the cycle was used first);
//   - test.zzwide.v1: types whose build FAILS late - after fields that refer to many healthy,
//     feature-rich messages of the repository's own test protos (exposed oneofs, polymorphs,
//     wrappers ...) were processed - in two ways (a fixed32 field, an enum without an
//     *_UNSPECIFIED zero value). Whatever the failed build touched must be as good as new.
func registerSourceTypes() {
	cyc := `syntax = "proto3";
package test.zzcyc.v1;
import "j5/ext/v1/annotations.proto";

message Node {
  Meta meta = 1 [(j5.ext.v1.field).message.flatten = true];
  string id = 2;
}
message Meta {
  string label = 1;
  Node parent = 2;
}
message RingA {
  RingB b = 1 [(j5.ext.v1.field).message.flatten = true];
  string a_name = 2;
}
message RingB {
  RingC c = 1;
  string b_name = 2;
}
message RingC {
  RingA a = 1;
  Tail tail = 2 [(j5.ext.v1.field).message.flatten = true];
  string c_name = 3;
}
message Tail {
  string tail_note = 1;
  RingB back = 2;
}
`
	var refs []string
	for _, path := range []string{"test/schema/v1/full_schema.proto", "test/foo/v1/foo.proto"} {
		fd, err := protoregistry.GlobalFiles.FindFileByPath(path)
		if err != nil {
			continue
		}
		for i := 0; i < fd.Messages().Len(); i++ {
			md := fd.Messages().Get(i)
			if !staticallyUnreflectable(md, map[protoreflect.FullName]bool{}) {
				refs = append(refs, string(md.FullName()))
			}
		}
	}
	sort.Strings(refs)
	var sb strings.Builder
	sb.WriteString("syntax = \"proto3\";\npackage test.zzwide.v1;\nimport \"test/schema/v1/full_schema.proto\";\nimport \"test/foo/v1/foo.proto\";\nimport \"buf/validate/validate.proto\";\n\n")
	sb.WriteString("enum Colour {\n  RED = 0;\n  GREEN = 1;\n}\n\n")
	// a build that PANICS (today: a bool field with a const rule dereferences nil rules in
	// lib/j5schema.buildScalarType), nested and at the top: a caller that recovers must find the
	// shared cache as it was
	sb.WriteString("message PanicInner {\n  string name = 1;\n  bool flag = 2 [(buf.validate.field).bool.const = true];\n}\n\n")
	sb.WriteString("message PanicOuter {\n  string title = 1;\n  .test.schema.v1.Bar bar = 2;\n  PanicInner inner = 3;\n  .test.foo.v1.Bar after = 4;\n}\n\n")
	sb.WriteString("message PanicOuter2 {\n  PanicInner inner = 1;\n  string t = 2;\n}\n\n")
	per := 5
	n := 0
	for i := 0; i*per < len(refs) && i < 8; i++ {
		fmt.Fprintf(&sb, "message Wide%c {\n", 'A'+i)
		num := 1
		for _, r := range refs[i*per : min(len(refs), i*per+per)] {
			fmt.Fprintf(&sb, "  .%s f%d = %d;\n", r, num, num)
			num++
		}
		if i%2 == 0 {
			fmt.Fprintf(&sb, "  fixed32 bad = %d;\n", num)
		} else {
			fmt.Fprintf(&sb, "  Colour bad = %d;\n", num)
		}
		num++
		// and one more healthy reference after the culprit
		fmt.Fprintf(&sb, "  .%s after = %d;\n}\n\n", refs[(i*per+per)%len(refs)], num)
		n++
	}
	// test.zzclash.v1: distinct types whose J5 schema names coincide, because the schema name of a
	// nested type is its path joined with "_": Foo.Bar (nested) and Foo_Bar (top level), the nested
	// enum Job.Status and the message Job_Status. KNOWN FINDING (known_findings.txt): the cache is
	// keyed by schema name, so whichever is used first on a shared codec decides what the other one
	// gets. These types only ever appear in workloads of their own.
	clash := `syntax = "proto3";
package test.zzclash.v1;

message Foo {
  message Bar {
    string inner = 1;
  }
  Bar bar = 1;
  string name = 2;
}
message Foo_Bar {
  string outer = 1;
  int64 count = 2;
}
message Job {
  enum Status {
    STATUS_UNSPECIFIED = 0;
    STATUS_DONE = 1;
  }
  Status status = 1;
  string title = 2;
}
message Job_Status {
  string text = 1;
}
`
	// test.zzshape.v1: sizes no hand-written test proto has - an enum of 40 and one of 300 options, a
	// message of 70 fields, a oneof of 40 arms, twelve levels of nesting: where lookups switch from
	// scanning to indexing and small-array fast paths end.
	var sh strings.Builder
	sh.WriteString("syntax = \"proto3\";\npackage test.zzshape.v1;\n\n")
	for _, e := range []struct {
		name string
		n    int
	}{{"Forty", 40}, {"Huge", 300}} {
		fmt.Fprintf(&sh, "enum %s {\n  %s_UNSPECIFIED = 0;\n", e.name, strings.ToUpper(e.name))
		for i := 1; i < e.n; i++ {
			fmt.Fprintf(&sh, "  %s_V%d = %d;\n", strings.ToUpper(e.name), i, i)
		}
		sh.WriteString("}\n\n")
	}
	sh.WriteString("message UsesEnums {\n  Forty forty = 1;\n  repeated Forty forties = 2;\n  Huge huge = 3;\n  map<string, Huge> by_name = 4;\n  string note = 5;\n}\n\n")
	sh.WriteString("message Wide70 {\n")
	for i := 1; i <= 70; i++ {
		typ := []string{"string", "int64", "bool", "Forty", "int32", "double", "bytes"}[i%7]
		fmt.Fprintf(&sh, "  %s f%d = %d;\n", typ, i, i)
	}
	sh.WriteString("}\n\n")
	sh.WriteString("message ManyArms {\n  oneof choice {\n")
	for i := 1; i <= 40; i++ {
		typ := []string{"string", "int64", "Wide70", "Forty"}[i%4]
		fmt.Fprintf(&sh, "    %s arm%d = %d;\n", typ, i, i)
	}
	sh.WriteString("  }\n  string tail = 50;\n}\n\n")
	for i := 1; i <= 12; i++ {
		fmt.Fprintf(&sh, "message Deep%d {\n  string level = 1;\n", i)
		if i < 12 {
			fmt.Fprintf(&sh, "  Deep%d next = 2;\n", i+1)
		} else {
			sh.WriteString("  UsesEnums leaf = 2;\n")
		}
		sh.WriteString("}\n\n")
	}
	compileProtoSources(map[string]string{
		"test/zzshape/v1/shape.proto": sh.String(),
		"test/zzclash/v1/clash.proto": clash,
		"test/zzcyc/v1/cyc.proto":     cyc,
		"test/zzwide/v1/wide.proto":   sb.String(),
	})
}

// ---------------------------------------------------------------- filler types

// fillTypes: 1600 small message types (each with an enum of its own) that exist only to make a
// shared cache LARGE - limits, thresholds and eviction only misbehave beyond some number of entries.
var fillTypes []protoreflect.MessageType

func registerFillTypes() {
	str := descriptorpb.FieldDescriptorProto_TYPE_STRING.Enum()
	en := descriptorpb.FieldDescriptorProto_TYPE_ENUM.Enum()
	opt := descriptorpb.FieldDescriptorProto_LABEL_OPTIONAL.Enum()
	fdp := &descriptorpb.FileDescriptorProto{Name: proto.String("test/zzfill/v1/fill.proto"), Syntax: proto.String("proto3"), Package: proto.String("test.zzfill.v1")}
	for i := 0; i < 1600; i++ {
		name := fmt.Sprintf("F%04d", i)
		fdp.MessageType = append(fdp.MessageType, &descriptorpb.DescriptorProto{
			Name: proto.String(name),
			Field: []*descriptorpb.FieldDescriptorProto{
				{Name: proto.String("note"), JsonName: proto.String("note"), Number: proto.Int32(1), Type: str, Label: opt},
				{Name: proto.String("kind"), JsonName: proto.String("kind"), Number: proto.Int32(2), Type: en, TypeName: proto.String(".test.zzfill.v1." + name + ".Kind"), Label: opt},
			},
			EnumType: []*descriptorpb.EnumDescriptorProto{{Name: proto.String("Kind"), Value: []*descriptorpb.EnumValueDescriptorProto{
				{Name: proto.String("KIND_UNSPECIFIED"), Number: proto.Int32(0)}, {Name: proto.String("KIND_A"), Number: proto.Int32(1)}}}},
		})
	}
	fd, err := protodesc.NewFile(fdp, protoregistry.GlobalFiles)
	if err != nil {
		panic(err)
	}
	for i := 0; i < fd.Messages().Len(); i++ {
		fillTypes = append(fillTypes, dynamicpb.NewMessageType(fd.Messages().Get(i)))
	}
}
