package main

import (
	"google.golang.org/protobuf/proto"
	"google.golang.org/protobuf/reflect/protodesc"
	"google.golang.org/protobuf/reflect/protoreflect"
	"google.golang.org/protobuf/reflect/protoregistry"
	"google.golang.org/protobuf/types/descriptorpb"
	"google.golang.org/protobuf/types/dynamicpb"
)

// Types that J5 cannot reflect (their schema build aborts half-way and leaves
// placeholders in the shared cache), plus reflectable types that share
// sub-schemas with them. They give the workload "failing first use" next to
// successful users of the same sub-schemas. Built from literal descriptors and
// registered in the global registries so that Any resolution finds them.
func registerDynamicTypes() {
	str := descriptorpb.FieldDescriptorProto_TYPE_STRING.Enum()
	msg := descriptorpb.FieldDescriptorProto_TYPE_MESSAGE.Enum()
	opt := descriptorpb.FieldDescriptorProto_LABEL_OPTIONAL.Enum()
	rep := descriptorpb.FieldDescriptorProto_LABEL_REPEATED.Enum()
	f := func(name string, num int32, t *descriptorpb.FieldDescriptorProto_Type, typeName string, label *descriptorpb.FieldDescriptorProto_Label) *descriptorpb.FieldDescriptorProto {
		fd := &descriptorpb.FieldDescriptorProto{Name: proto.String(name), Number: proto.Int32(num), Type: t, Label: label, JsonName: proto.String(name)}
		if typeName != "" {
			fd.TypeName = proto.String(typeName)
		}
		return fd
	}
	fdp := &descriptorpb.FileDescriptorProto{
		Name:    proto.String("test/zzbad/v1/bad.proto"),
		Syntax:  proto.String("proto3"),
		Package: proto.String("test.zzbad.v1"),
		MessageType: []*descriptorpb.DescriptorProto{
			{Name: proto.String("Leaf"), Field: []*descriptorpb.FieldDescriptorProto{
				f("a", 1, str, "", opt), f("more", 2, str, "", rep)}},
			{Name: proto.String("Mid"), Field: []*descriptorpb.FieldDescriptorProto{
				f("leaf", 1, msg, ".test.zzbad.v1.Leaf", opt), f("name", 2, str, "", opt)}},
			// fixed32 has no J5 representation: building this schema fails after Leaf/Mid were linked
			{Name: proto.String("HasFixed"), Field: []*descriptorpb.FieldDescriptorProto{
				f("mid", 1, msg, ".test.zzbad.v1.Mid", opt),
				f("x", 2, descriptorpb.FieldDescriptorProto_TYPE_FIXED32.Enum(), "", opt),
				f("leaf", 3, msg, ".test.zzbad.v1.Leaf", opt)}},
			// fails in a nested build: Outer -> HasFixed
			{Name: proto.String("Outer"), Field: []*descriptorpb.FieldDescriptorProto{
				f("s", 1, str, "", opt),
				f("leaves", 2, msg, ".test.zzbad.v1.Leaf", rep),
				f("bad", 3, msg, ".test.zzbad.v1.HasFixed", opt)}},
			// a second type that fails only in the nested build of the same HasFixed
			{Name: proto.String("Outer2"), Field: []*descriptorpb.FieldDescriptorProto{
				f("t", 1, str, "", opt),
				f("mid", 2, msg, ".test.zzbad.v1.Mid", opt),
				f("bad", 3, msg, ".test.zzbad.v1.HasFixed", opt),
				f("leaf", 4, msg, ".test.zzbad.v1.Leaf", opt)}},
			// fine, shares Leaf and Mid with the failing ones
			{Name: proto.String("Good"), Field: []*descriptorpb.FieldDescriptorProto{
				f("mid", 1, msg, ".test.zzbad.v1.Mid", opt), f("leaf", 2, msg, ".test.zzbad.v1.Leaf", opt),
				f("self", 3, msg, ".test.zzbad.v1.Good", opt)}},
		},
	}
	fd, err := protodesc.NewFile(fdp, protoregistry.GlobalFiles)
	if err != nil {
		panic(err)
	}
	if err := protoregistry.GlobalFiles.RegisterFile(fd); err != nil {
		panic(err)
	}
	for i := 0; i < fd.Messages().Len(); i++ {
		if err := protoregistry.GlobalTypes.RegisterMessage(dynamicpb.NewMessageType(fd.Messages().Get(i))); err != nil {
			panic(err)
		}
	}
}

// twinTypes builds, for a few generated files, a second set of descriptors with the same full
// names (as a process that loads descriptors at run time next to its generated code has them):
// dynamic "twins" of generated messages. Schemas are cached by name, so a twin and its generated
// sibling share a schema while every call must still use its own message descriptor.
func twinTypes() []protoreflect.MessageType {
	// an independent registry: every file the twins need, including the well-known types and the
	// j5 types they use, is re-created in it, so that e.g. the twin of FullSchema refers to a twin
	// of google.protobuf.Any and not to the generated descriptor
	private := &protoregistry.Files{}
	var clone func(path string) (protoreflect.FileDescriptor, error)
	clone = func(path string) (protoreflect.FileDescriptor, error) {
		if fd, err := private.FindFileByPath(path); err == nil {
			return fd, nil
		}
		gen, err := protoregistry.GlobalFiles.FindFileByPath(path)
		if err != nil {
			return nil, err
		}
		imports := gen.Imports()
		for i := 0; i < imports.Len(); i++ {
			if _, err := clone(imports.Get(i).Path()); err != nil {
				return nil, err
			}
		}
		fd, err := protodesc.NewFile(protodesc.ToFileDescriptorProto(gen), private)
		if err != nil {
			return nil, err
		}
		if err := private.RegisterFile(fd); err != nil {
			return nil, err
		}
		return fd, nil
	}
	var out []protoreflect.MessageType
	for _, path := range []string{"test/schema/v1/full_schema.proto", "test/foo/v1/foo.proto"} {
		twin, err := clone(path)
		if err != nil {
			continue
		}
		for i := 0; i < twin.Messages().Len(); i++ {
			out = append(out, dynamicpb.NewMessageType(twin.Messages().Get(i)))
		}
	}
	return out
}
