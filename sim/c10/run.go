package main

import (
	"fmt"
	"os"
	"regexp"
	"sort"
	"strings"
	"time"

	"github.com/pentops/j5/internal/zzverif/simrt"
)

// ---------------------------------------------------------------- race log

var raceLogPath string
var raceLogOff int64

func initRaceLog() {
	for _, kv := range strings.Fields(os.Getenv("GORACE")) {
		if strings.HasPrefix(kv, "log_path=") {
			raceLogPath = fmt.Sprintf("%s.%d", strings.TrimPrefix(kv, "log_path="), os.Getpid())
		}
	}
}

// newRaceReports returns race-detector output written since the last call.
func newRaceReports() string {
	if raceLogPath == "" {
		return ""
	}
	st, err := os.Stat(raceLogPath)
	if err != nil || st.Size() <= raceLogOff {
		return ""
	}
	f, err := os.Open(raceLogPath)
	if err != nil {
		return ""
	}
	defer f.Close()
	buf := make([]byte, st.Size()-raceLogOff)
	_, _ = f.ReadAt(buf, raceLogOff)
	raceLogOff = st.Size()
	return string(buf)
}

var frameRe = regexp.MustCompile(`(?m)^  (\S+)\(\)\n\s+(\S+):(\d+)`)

// raceFrames extracts, for each of the two conflicting accesses of the first
// report, the innermost function that belongs to the code under test.
func raceFrames(report string) (funcs []string, inRepo bool) {
	blocks := strings.Split(report, "\n\n")
	for _, b := range blocks {
		if !(strings.HasPrefix(strings.TrimSpace(b), "Read at") || strings.HasPrefix(strings.TrimSpace(b), "Write at") ||
			strings.HasPrefix(strings.TrimSpace(b), "Previous read at") || strings.HasPrefix(strings.TrimSpace(b), "Previous write at") ||
			strings.Contains(b, "WARNING: DATA RACE")) {
			continue
		}
		for _, m := range frameRe.FindAllStringSubmatch(b, -1) {
			fn, file := m[1], m[2]
			if strings.Contains(file, "github.com/pentops/j5/") && !strings.Contains(file, "zzverif") {
				short := fn[strings.LastIndex(fn, "/")+1:]
				funcs = append(funcs, short)
				inRepo = true
				break
			}
		}
		if len(funcs) >= 2 {
			break
		}
	}
	return funcs, inRepo
}

// ---------------------------------------------------------------- one simulated run

type RunCfg struct {
	Seed     uint64       `json:"seed"`      // scheduler PRNG
	PermSeed uint64       `json:"perm_seed"` // iteration-order streams
	Policy   simrt.Policy `json:"policy"`
}

type RunResult struct {
	Outcomes  [][]Outcome
	Sig       uint64
	Stats     simrt.Stats
	Switches  []simrt.Switch
	Deadlock  bool
	Capped    bool
	StuckSite string
	Race      string
	Events    []simrt.Event
	TaskYields []int
}

func inBuild(site string) bool { return strings.HasPrefix(site, "lib/j5schema/") }

func installPermHook(permSeed uint64, refSalt uint64) {
	simrt.SetPermHook(func(site string, n int) []int {
		id, op, call, ok := simrt.CurrentTask()
		if !ok {
			if refSalt == 0 {
				return nil
			}
			// sequential reference executions get their own, different orders on purpose
			return nil
		}
		p := simrt.NewRng(simrt.Derive(permSeed, uint64(id), uint64(op), uint64(call), simrt.HashString(site))).Perm(n)
		return p
	})
}

func runSim(w *Workload, prep [][]*Prepared, warm []*Prepared, cfg RunCfg, keepEvents bool) *RunResult {
	env := newEnv(w.Codec)
	for _, p := range warm {
		execOp(env, p) // before any task exists: a real happens-before edge, as in main()
	}
	res := &RunResult{Outcomes: make([][]Outcome, len(w.Tasks))}
	sim := simrt.NewSim(cfg.Seed, cfg.Policy)
	sim.KeepEvents = keepEvents
	sim.InBuild = inBuild
	// instrumented code that starts goroutines of its own: verify at every yield
	// that the caller really is the task holding the baton
	sim.SetCheckGoid(rewriteGoStmts > 0)
	installPermHook(cfg.PermSeed, 0)
	for t := range w.Tasks {
		t := t
		res.Outcomes[t] = make([]Outcome, len(w.Tasks[t]))
		for i := range res.Outcomes[t] {
			res.Outcomes[t][i] = Outcome{Class: "not_run"}
		}
		sim.Spawn(fmt.Sprintf("T%d", t), func() {
			for i, p := range prep[t] {
				res.Outcomes[t][i] = execOp(env, p)
				simrt.OpDone()
			}
		})
	}
	sim.Run(20 * time.Second)
	simrt.SetPermHook(nil)
	res.Sig = sim.Sig
	res.Stats = sim.Stats
	res.Switches = sim.Switches
	res.Deadlock = sim.Deadlock
	res.Capped = sim.Capped
	res.StuckSite = sim.StuckSite
	res.Events = sim.Events
	res.Race = newRaceReports()
	sim.Close()
	return res
}

// ---------------------------------------------------------------- sequential reference

// Admissible is, per operation, the set of outcomes the call has in some
// sequential execution of the same workload on one shared instance.
type Admissible struct {
	sets   [][]map[string]Outcome
	orders int
	alone  [][]Outcome
	// SeqDeadlock: some purely sequential execution of the workload blocked forever
	SeqDeadlock bool
}

func (a *Admissible) add(t, i int, o Outcome) {
	a.sets[t][i][o.Key()] = o
}

func (a *Admissible) has(t, i int, o Outcome) bool {
	_, ok := a.sets[t][i][o.Key()]
	return ok
}

// runSequential executes the workload with the given global order of
// (task, op) steps on one shared environment. It runs as a single simulated
// task, so that a lock that is never released shows up as a detected
// deadlock instead of hanging the harness.
func runSequential(w *Workload, prep [][]*Prepared, warm []*Prepared, order [][2]int) ([][]Outcome, bool) {
	out := make([][]Outcome, len(w.Tasks))
	for t := range w.Tasks {
		out[t] = make([]Outcome, len(w.Tasks[t]))
	}
	sim := simrt.NewSim(1, simrt.Policy{Mode: "serial"})
	simrt.SetPermHook(nil)
	sim.Spawn("seq", func() {
		env := newEnv(w.Codec)
		for _, p := range warm {
			execOp(env, p)
		}
		for _, st := range order {
			out[st[0]][st[1]] = execOp(env, prep[st[0]][st[1]])
		}
	})
	sim.Run(20 * time.Second)
	dead := sim.Deadlock || sim.Capped
	sim.Close()
	if dead {
		return nil, true
	}
	return out, false
}

func taskMajor(w *Workload, perm []int) [][2]int {
	var order [][2]int
	for _, t := range perm {
		for i := range w.Tasks[t] {
			order = append(order, [2]int{t, i})
		}
	}
	return order
}

func randomMerge(w *Workload, rng *simrt.Rng) [][2]int {
	next := make([]int, len(w.Tasks))
	var order [][2]int
	for {
		var live []int
		for t := range w.Tasks {
			if next[t] < len(w.Tasks[t]) {
				live = append(live, t)
			}
		}
		if len(live) == 0 {
			return order
		}
		t := live[rng.Intn(len(live))]
		order = append(order, [2]int{t, next[t]})
		next[t]++
	}
}

func permutations(n int) [][]int {
	var out [][]int
	var rec func(cur []int, used int)
	rec = func(cur []int, used int) {
		if len(cur) == n {
			out = append(out, append([]int{}, cur...))
			return
		}
		for i := 0; i < n; i++ {
			if used&(1<<i) == 0 {
				rec(append(cur, i), used|1<<i)
			}
		}
	}
	rec(nil, 0)
	return out
}

func computeAdmissible(w *Workload, prep [][]*Prepared, warm []*Prepared, seed uint64, merges int) *Admissible {
	a := &Admissible{sets: make([][]map[string]Outcome, len(w.Tasks)), alone: make([][]Outcome, len(w.Tasks))}
	for t := range w.Tasks {
		a.sets[t] = make([]map[string]Outcome, len(w.Tasks[t]))
		a.alone[t] = make([]Outcome, len(w.Tasks[t]))
		for i := range w.Tasks[t] {
			a.sets[t][i] = map[string]Outcome{}
			// (i) alone, on a fresh private instance (cannot block: nothing was used before)
			env := newEnv(w.Codec)
			o := execOp(env, prep[t][i])
			a.alone[t][i] = o
			a.add(t, i, o)
		}
	}
	addRun := func(order [][2]int) {
		if a.SeqDeadlock {
			return
		}
		out, dead := runSequential(w, prep, warm, order)
		if dead {
			a.SeqDeadlock = true
			return
		}
		for t := range out {
			for i := range out[t] {
				a.add(t, i, out[t][i])
			}
		}
		a.orders++
	}
	// (ii) every task-major order (all permutations for <=4 tasks)
	perms := permutations(len(w.Tasks))
	if len(perms) > 24 {
		perms = perms[:24]
	}
	for _, p := range perms {
		addRun(taskMajor(w, p))
	}
	// (iii) random op-granular merges
	rng := simrt.NewRng(simrt.Derive(seed, 0x5e9))
	for k := 0; k < merges; k++ {
		addRun(randomMerge(w, rng))
	}
	return a
}

// confirmNotSequential tries harder to find a sequential execution in which
// op (t,i) has the observed outcome, before the outcome is called a violation.
func confirmNotSequential(w *Workload, prep [][]*Prepared, warm []*Prepared, a *Admissible, t, i int, o Outcome, seed uint64) bool {
	rng := simrt.NewRng(simrt.Derive(seed, 0xc0f))
	for k := 0; k < 300; k++ {
		out, dead := runSequential(w, prep, warm, randomMerge(w, rng))
		if dead {
			return true
		}
		for tt := range out {
			for ii := range out[tt] {
				a.add(tt, ii, out[tt][ii])
			}
		}
		if a.has(t, i, o) {
			return false
		}
	}
	return true
}

// ---------------------------------------------------------------- judging a run

type Violation struct {
	Class  string `json:"class"` // data_race | panic | deadlock | no_progress | result_differs
	Task   int    `json:"task"`
	Op     int    `json:"op"`
	OpSpec string `json:"op_spec,omitempty"`
	Detail string `json:"detail"`
	Funcs  []string `json:"funcs,omitempty"`
}

func (v *Violation) Key() string {
	switch v.Class {
	case "data_race":
		f := append([]string{}, v.Funcs...)
		sort.Strings(f)
		return "data_race@" + strings.Join(f, "+")
	case "result_differs", "panic":
		kind := v.OpSpec
		if i := strings.IndexByte(kind, '('); i > 0 {
			kind = kind[:i]
		}
		return v.Class + "@" + kind
	}
	return v.Class
}

// judge returns every violation of a run: first the schedule-level ones
// (deadlock, no progress, wrong result, panic), then the race report.
func judge(w *Workload, prep [][]*Prepared, warm []*Prepared, a *Admissible, res *RunResult, seed uint64, refYields int) []*Violation {
	var out []*Violation
	var race *Violation
	if res.Race != "" {
		funcs, inRepo := raceFrames(res.Race)
		race = &Violation{Class: "data_race", Task: -1, Op: -1, Detail: truncate(res.Race, 6000), Funcs: funcs}
		if !inRepo {
			race.Class = "harness_race"
		}
	}
	if res.Deadlock {
		out = append(out, &Violation{Class: "deadlock", Task: -1, Op: -1, Detail: "every live task is blocked on a lock or Once that nobody can release; last site " + res.StuckSite})
		if race != nil {
			out = append(out, race)
		}
		return out
	}
	if res.Capped {
		out = append(out, &Violation{Class: "yield_cap", Task: -1, Op: -1, Detail: "run exceeded the yield cap at " + res.StuckSite})
		return out
	}
	if refYields > 0 && res.Stats.MaxOpYields > 100*refYields+5000 {
		out = append(out, &Violation{Class: "no_progress", Task: -1, Op: -1, Detail: fmt.Sprintf("an operation executed %d yields; the whole workload takes %d when run sequentially", res.Stats.MaxOpYields, refYields)})
	}
	found := false
	for t := range res.Outcomes {
		for i, o := range res.Outcomes[t] {
			if found || a.has(t, i, o) {
				continue
			}
			if o.Class == "not_run" {
				out = append(out, &Violation{Class: "harness_trouble", Task: t, Op: i, Detail: "operation did not run"})
				found = true
				continue
			}
			if !confirmNotSequential(w, prep, warm, a, t, i, o, seed) {
				continue
			}
			var adm []string
			for _, x := range a.sets[t][i] {
				adm = append(adm, x.Class+":"+x.Canon+" "+firstLine(x.Text))
			}
			sort.Strings(adm)
			cls := "result_differs"
			if o.Class == "panic" {
				cls = "panic"
			}
			out = append(out, &Violation{Class: cls, Task: t, Op: i, OpSpec: w.Tasks[t][i].String(),
				Detail: fmt.Sprintf("under simulation the call returned %s:%s %s\nin every sequential execution (%d orders) it returns one of: %s",
					o.Class, o.Canon, truncate(o.Text, 1200), a.orders, strings.Join(adm, " | "))})
			found = true
		}
	}
	if race != nil {
		out = append(out, race)
	}
	return out
}

func firstLine(s string) string {
	if i := strings.IndexByte(s, '\n'); i >= 0 {
		return s[:i]
	}
	return s
}

func truncate(s string, n int) string {
	if len(s) > n {
		return s[:n] + "…"
	}
	return s
}
