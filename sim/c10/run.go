package main

import (
	"fmt"
	"os"
	"regexp"
	"runtime"
	"sort"
	"strings"
	"sync"
	"time"

	"github.com/pentops/j5/internal/zzverif/simrt"
)

// ---------------------------------------------------------------- race log

var raceLogPath string
var raceLogOff int64

func initRaceLog() {
	for _, kv := range strings.Fields(os.Getenv("GORACE")) {
		if strings.HasPrefix(kv, "log_path=") {
			raceLogPath = fmt.Sprintf("%s.%d", strings.TrimPrefix(kv, "log_path="), os.Getpid())
		}
	}
}

// newRaceReports returns race-detector output written since the last call.
func newRaceReports() string {
	if raceLogPath == "" {
		return ""
	}
	st, err := os.Stat(raceLogPath)
	if err != nil || st.Size() <= raceLogOff {
		return ""
	}
	f, err := os.Open(raceLogPath)
	if err != nil {
		return ""
	}
	defer f.Close()
	buf := make([]byte, st.Size()-raceLogOff)
	_, _ = f.ReadAt(buf, raceLogOff)
	raceLogOff = st.Size()
	return string(buf)
}

var frameRe = regexp.MustCompile(`(?m)^  (\S+)\(\)\n\s+(\S+):(\d+)`)

// raceFrames extracts, for each of the two conflicting accesses of the first
// report, the innermost non-runtime function. inRepo is false when one of the
// accesses was made by the simulator or the harness itself (their frames sit
// between the runtime and the code under test): that is machinery trouble.
func raceFrames(report string) (funcs []string, inRepo bool) {
	blocks := strings.Split(report, "\n\n")
	inRepo = true
	n := 0
	for _, b := range blocks {
		tb := strings.TrimSpace(b)
		if i := strings.Index(tb, "WARNING: DATA RACE"); i >= 0 {
			tb = strings.TrimSpace(tb[i+len("WARNING: DATA RACE"):])
		}
		if !(strings.HasPrefix(tb, "Read at") || strings.HasPrefix(tb, "Write at") ||
			strings.HasPrefix(tb, "Previous read at") || strings.HasPrefix(tb, "Previous write at") ||
			strings.HasPrefix(tb, "Atomic") || strings.HasPrefix(tb, "Previous atomic")) {
			continue
		}
		for _, m := range frameRe.FindAllStringSubmatch(tb, -1) {
			fn, file := m[1], m[2]
			if strings.HasPrefix(fn, "runtime.") || strings.HasPrefix(file, "internal/runtime/") || strings.HasPrefix(file, "runtime/") {
				continue
			}
			if strings.Contains(file, "zzverif/simrt/order.go") {
				// the seeded iteration wrappers stand in for a `range` of the code under test: the access
				// belongs to their caller
				continue
			}
			short := fn[strings.LastIndex(fn, "/")+1:]
			funcs = append(funcs, short)
			if !strings.Contains(file, "github.com/pentops/j5/") || strings.Contains(file, "zzverif") {
				// dependency frames (protobuf-go, encoding/json, ...) count as code under test's
				// responsibility only if reached from it; harness/simulator frames never do
				if strings.Contains(file, "zzverif") {
					inRepo = false
				}
			}
			break
		}
		n++
		if n >= 2 {
			break
		}
	}
	if len(funcs) == 0 {
		inRepo = false
	}
	return funcs, inRepo
}

// ---------------------------------------------------------------- one simulated run

type RunCfg struct {
	Seed     uint64       `json:"seed"`      // scheduler PRNG
	PermSeed uint64       `json:"perm_seed"` // iteration-order streams
	Policy   simrt.Policy `json:"policy"`
}

type RunResult struct {
	Outcomes   [][]Outcome
	Sig        uint64
	Stats      simrt.Stats
	Switches   []simrt.Switch
	Deadlock   bool
	Capped     bool
	StuckSite  string
	Race       string
	Events     []simrt.Event
	TaskYields []int
	SiteBits   [64]uint64
}

func inBuild(site string) bool { return strings.HasPrefix(site, "lib/j5schema/") }

func installPermHook(permSeed uint64, refSalt uint64) {
	simrt.SetPermHook(func(site string, n int, content uint64) []int {
		id, op, _, ok := simrt.CurrentTask()
		if !ok {
			return nil // sequential reference executions use the canonical order
		}
		// a pure function of (seed, task, operation, site, collection): independent of the schedule
		return simrt.NewRng(simrt.Derive(permSeed, uint64(id), uint64(op), simrt.HashString(site), content)).Perm(n)
	})
}

// nativeFallback reports whether the instrumented code uses synchronisation the simulator does
// not model. The harness then degrades, for this build, from deterministic scheduling to
// ordinary goroutines: the race detector, the sequential-reference oracle and a deadlock
// timeout still apply, but schedules are no longer chosen, recorded or exactly replayable.
func nativeFallback() bool { return rewriteUnmodelled > 0 || dynNative != "" }

// dynNative is set, for the rest of the process, when a simulated run ended with the baton holder
// asleep in a primitive the simulator does not model (simrt.Sim.NativeBlocked).
var dynNative string

var spinLeak bool

// runNative executes the tasks as ordinary goroutines released together.
func runNative(w *Workload, prep [][]*Prepared, warm []*Prepared, cfg RunCfg) *RunResult {
	env := newEnv(w.Codec)
	for _, p := range warm {
		execOp(env, p)
	}
	res := &RunResult{Outcomes: make([][]Outcome, len(w.Tasks))}
	simrt.SetPermHook(nil)
	simrt.SetNativeMode(true)
	defer simrt.SetNativeMode(false)
	start := make(chan struct{})
	done := make(chan struct{})
	var wg sync.WaitGroup
	rng := simrt.NewRng(cfg.Seed)
	for t := range w.Tasks {
		t := t
		res.Outcomes[t] = make([]Outcome, len(w.Tasks[t]))
		for i := range res.Outcomes[t] {
			res.Outcomes[t][i] = Outcome{Class: "not_run"}
		}
		spins := rng.Intn(200) // seeded start skew
		wg.Add(1)
		go func() {
			defer wg.Done()
			<-start
			for k := 0; k < spins; k++ {
				runtime.Gosched()
			}
			for i, p := range prep[t] {
				res.Outcomes[t][i] = execOp(env, p)
			}
		}()
	}
	go func() { wg.Wait(); close(done) }()
	close(start)
	select {
	case <-done:
	case <-time.After(15 * time.Second):
		// nothing finished for 15 s of real time: a few small operations never take that long
		buf := make([]byte, 1<<18)
		n := runtime.Stack(buf, true)
		res.Deadlock = true
		res.StuckSite = "native mode: tasks did not finish within 15s\n" + trimBlocked(string(buf[:n]))
		// the task goroutines may still be alive: their outcome slots must not be touched any more
		res = &RunResult{Deadlock: true, StuckSite: res.StuckSite}
	}
	res.Stats.Yields = 1
	res.Race = newRaceReports()
	return res
}

// trimBlocked keeps the goroutines of the dump that are blocked inside the code under test.
func trimBlocked(dump string) string {
	var keep []string
	for _, g := range strings.Split(dump, "\n\n") {
		if strings.Contains(g, "pentops/j5/") && (strings.Contains(g, "[chan ") || strings.Contains(g, "[sync.") || strings.Contains(g, "[semacquire") || strings.Contains(g, "[select")) {
			lines := strings.Split(g, "\n")
			if len(lines) > 14 {
				lines = lines[:14]
			}
			keep = append(keep, strings.Join(lines, "\n"))
		}
		if len(keep) >= 4 {
			break
		}
	}
	return strings.Join(keep, "\n\n")
}

func runSim(w *Workload, prep [][]*Prepared, warm []*Prepared, cfg RunCfg, keepEvents bool) *RunResult {
	if nativeFallback() {
		return runNative(w, prep, warm, cfg)
	}
	// the simulated clock runs from before the shared object exists (a cache that notes its creation
	// time must not see the real clock), and stays on afterwards: nothing in this process reads real time
	simrt.StartClock(cfg.Seed)
	env := newEnv(w.Codec)
	for _, p := range warm {
		execOp(env, p) // before any task exists: a real happens-before edge, as in main()
	}
	res := &RunResult{Outcomes: make([][]Outcome, len(w.Tasks))}
	sim := simrt.NewSim(cfg.Seed, cfg.Policy)
	sim.KeepEvents = keepEvents
	sim.InBuild = inBuild
	// instrumented code that starts goroutines of its own: verify at every yield
	// that the caller really is the task holding the baton
	sim.SetCheckGoid(rewriteGoStmts > 0)
	installPermHook(cfg.PermSeed, 0)
	for t := range w.Tasks {
		t := t
		res.Outcomes[t] = make([]Outcome, len(w.Tasks[t]))
		for i := range res.Outcomes[t] {
			res.Outcomes[t][i] = Outcome{Class: "not_run"}
		}
		sim.Spawn(fmt.Sprintf("T%d", t), func() {
			for i, p := range prep[t] {
				res.Outcomes[t][i] = execOp(env, p)
				simrt.OpDone()
			}
		})
	}
	sim.Run(60 * time.Second)
	simrt.SetPermHook(nil)
	if sim.NativeBlocked {
		// not a verdict: the parked goroutines are abandoned, the workload is repeated natively
		if dynNative == "" {
			dynNative = sim.BlockedInfo + " (last yield site " + sim.StuckSite + ")"
			fmt.Fprintf(os.Stderr, "simrt: a task blocked in a primitive the simulator does not model: %s; continuing with ordinary goroutines (NATIVE-FALLBACK)\n", dynNative)
		}
		if strings.Contains(sim.BlockedInfo, "spinning") {
			spinLeak = true // an abandoned goroutine keeps a CPU busy: this worker ends after the workload
		}
		return runNative(w, prep, warm, cfg)
	}
	res.Sig = sim.Sig
	res.Stats = sim.Stats
	res.Switches = sim.Switches
	res.Deadlock = sim.Deadlock
	res.Capped = sim.Capped
	res.StuckSite = sim.StuckSite
	res.Events = sim.Events
	res.SiteBits = sim.SiteBits
	res.Race = newRaceReports()
	sim.Close()
	return res
}

// ---------------------------------------------------------------- sequential reference

// Admissible is, per operation, the set of outcomes the call has in some
// sequential execution of the same workload on one shared instance.
// Admissible is the sequential reference of one workload.
//
// For a call that succeeds when run alone (on a fresh private instance) the
// property allows exactly that result. For a call that fails alone, any
// failing class that some sequential execution on a shared instance exhibits
// is allowed (this is what tolerates the sequential quirk of §9: the second
// use of an unreflectable type panics where the first returned an error), a
// success is not.
type Admissible struct {
	alone [][]Outcome
	// textStable: the call fails alone with an error whose text is the same under the canonical
	// and under the reversed iteration order and in both alone passes: the text is then part of
	// "the same result" and is compared exactly
	textStable [][]bool
	seqClasses [][]map[string]bool
	orders     int
	// SeqDeadlock: some purely sequential execution of the workload blocked forever
	SeqDeadlock bool
	// SeqViolation: a purely sequential execution already returns, for a call that succeeds
	// alone, something else (history dependence of the shared instance or of process-wide state)
	SeqViolation *Violation
}

func (a *Admissible) has(t, i int, o Outcome) bool {
	al := a.alone[t][i]
	if al.Class == "ok" {
		return o.Class == "ok" && o.Canon == al.Canon
	}
	if o.Class == "ok" || o.Class == "not_run" {
		return false
	}
	if o.Class == "error" && al.Class == "error" && a.textStable[t][i] {
		return o.Text == al.Text
	}
	return o.Class == al.Class || a.seqClasses[t][i][o.Class]
}

// addSeq records the outcome of a sequential execution.
func (a *Admissible) addSeq(w *Workload, t, i int, o Outcome, how string) {
	al := a.alone[t][i]
	if al.Class != "ok" {
		if o.Class != "ok" {
			if o.Class == "error" && al.Class == "error" && a.textStable[t][i] && o.Text != al.Text {
				// The text is independent of iteration order and the same in both alone runs, yet on a
				// shared instance the call reports a different error even sequentially: the error is
				// not a function of the call alone.
				if a.SeqViolation == nil {
					a.SeqViolation = &Violation{Class: "result_differs", Task: t, Op: i, OpSpec: w.Tasks[t][i].String(),
						Detail: fmt.Sprintf("even in a purely sequential execution (%s) the call failed with: %s\nrun alone on a fresh instance it fails with: %s", how, truncate(o.Text, 600), truncate(al.Text, 600))}
				}
				return
			}
			a.seqClasses[t][i][o.Class] = true
			return
		}
	} else if o.Class == "ok" && o.Canon == al.Canon {
		return
	}
	if a.SeqViolation == nil {
		cls := "result_differs"
		if o.Class == "panic" {
			cls = "panic"
		}
		a.SeqViolation = &Violation{Class: cls, Task: t, Op: i, OpSpec: w.Tasks[t][i].String(),
			Detail: fmt.Sprintf("even in a purely sequential execution (%s) the call returned %s:%s %s\nrun alone on a fresh instance it returns %s:%s %s",
				how, o.Class, o.Canon, truncate(o.Text, 800), al.Class, al.Canon, firstLine(al.Text))}
	}
}

// aloneOp runs one operation on a fresh instance of its own, on a simulated day that depends on the
// operation only (so that "alone" means the same in every process).
func aloneOp(codecKind string, p *Prepared) Outcome {
	simrt.StartClock(simrt.Derive(0xa10e, p.Spec.ValSeed, simrt.HashString(p.Spec.Kind+p.Spec.Type)))
	return execOp(newEnv(codecKind), p)
}

// runSequential executes the workload with the given global order of
// (task, op) steps on one shared environment. It runs as a single simulated
// task, so that a lock that is never released shows up as a detected
// deadlock instead of hanging the harness.
func runSequential(w *Workload, prep [][]*Prepared, warm []*Prepared, order [][2]int) ([][]Outcome, bool) {
	out := make([][]Outcome, len(w.Tasks))
	for t := range w.Tasks {
		out[t] = make([]Outcome, len(w.Tasks[t]))
	}
	if nativeFallback() {
		finished := make(chan struct{})
		go func() {
			env := newEnv(w.Codec)
			for _, p := range warm {
				execOp(env, p)
			}
			for _, st := range order {
				out[st[0]][st[1]] = execOp(env, prep[st[0]][st[1]])
			}
			close(finished)
		}()
		select {
		case <-finished:
			return out, false
		case <-time.After(15 * time.Second):
			return nil, true
		}
	}
	// one task cannot livelock against another: no yield cap (a document thousands of levels deep
	// yields several hundred thousand times all by itself)
	sim := simrt.NewSim(1, simrt.Policy{Mode: "serial", MaxYields: 1 << 40})
	simrt.SetPermHook(nil)
	simrt.StartClock(0x5e9 + uint64(len(order))) // the reference runs on another simulated day
	sim.Spawn("seq", func() {
		env := newEnv(w.Codec)
		for _, p := range warm {
			execOp(env, p)
		}
		for _, st := range order {
			out[st[0]][st[1]] = execOp(env, prep[st[0]][st[1]])
		}
	})
	sim.Run(60 * time.Second)
	dead := sim.Deadlock || sim.Capped || sim.NativeBlocked // a single task asleep for good is a sequential deadlock
	sim.Close()
	if dead {
		return nil, true
	}
	return out, false
}

func taskMajor(w *Workload, perm []int) [][2]int {
	var order [][2]int
	for _, t := range perm {
		for i := range w.Tasks[t] {
			order = append(order, [2]int{t, i})
		}
	}
	return order
}

func randomMerge(w *Workload, rng *simrt.Rng) [][2]int {
	next := make([]int, len(w.Tasks))
	var order [][2]int
	for {
		var live []int
		for t := range w.Tasks {
			if next[t] < len(w.Tasks[t]) {
				live = append(live, t)
			}
		}
		if len(live) == 0 {
			return order
		}
		t := live[rng.Intn(len(live))]
		order = append(order, [2]int{t, next[t]})
		next[t]++
	}
}

// permutations returns up to limit permutations of [0,n) (all of them if there are fewer),
// starting with the identity; for larger n the tail of the list is filled with rotations so that
// every task comes first at least once.
func permutations(n, limit int) [][]int {
	var out [][]int
	var rec func(cur []int, used int)
	rec = func(cur []int, used int) {
		if len(out) >= limit {
			return
		}
		if len(cur) == n {
			out = append(out, append([]int{}, cur...))
			return
		}
		for i := 0; i < n; i++ {
			if used&(1<<i) == 0 {
				rec(append(cur, i), used|1<<i)
			}
		}
	}
	if n <= 4 {
		rec(nil, 0)
		return out
	}
	for r := 0; r < n && len(out) < limit; r++ {
		p := make([]int, n)
		for i := range p {
			p[i] = (i + r) % n
		}
		out = append(out, p)
		if len(out) < limit {
			q := make([]int, n)
			for i := range q {
				q[i] = p[n-1-i]
			}
			out = append(out, q)
		}
	}
	return out
}

func computeAdmissible(w *Workload, prep [][]*Prepared, warm []*Prepared, seed uint64, merges int) *Admissible {
	a := &Admissible{alone: make([][]Outcome, len(w.Tasks)), seqClasses: make([][]map[string]bool, len(w.Tasks)), textStable: make([][]bool, len(w.Tasks))}
	for t := range w.Tasks {
		a.seqClasses[t] = make([]map[string]bool, len(w.Tasks[t]))
		a.alone[t] = make([]Outcome, len(w.Tasks[t]))
		a.textStable[t] = make([]bool, len(w.Tasks[t]))
		for i := range w.Tasks[t] {
			a.seqClasses[t][i] = map[string]bool{}
			// (i) alone, on a fresh private instance
			t, i := t, i
			if !callWithTimeout(func() { a.alone[t][i] = aloneOp(w.Codec, prep[t][i]) }) {
				a.SeqDeadlock = true
				return a
			}
		}
	}
	// (i') alone again, in the reverse order: "alone" must not depend on what other fresh
	// instances did earlier in the process (package-level pools, memos)
	reversed := func(site string, n int, content uint64) []int {
		p := make([]int, n)
		for k := range p {
			p[k] = n - 1 - k
		}
		return p
	}
	for t := len(w.Tasks) - 1; t >= 0; t-- {
		for i := len(w.Tasks[t]) - 1; i >= 0; i-- {
			al := a.alone[t][i]
			var o Outcome
			if !callWithTimeout(func() { o = aloneOp(w.Codec, prep[t][i]) }) {
				a.SeqDeadlock = true
				return a
			}
			if al.Class == "error" && o.Class == "error" {
				if o.Text != al.Text {
					// same call, alone, same iteration order, twice in one process: two different errors
					if a.SeqViolation == nil {
						a.SeqViolation = &Violation{Class: "result_differs", Task: t, Op: i, OpSpec: w.Tasks[t][i].String(),
							Detail: fmt.Sprintf("the call, run alone on a fresh instance, failed with %q the first time and with %q the second time in the same process (only other fresh instances were used in between): process-wide state leaks into the error", truncate(al.Text, 500), truncate(o.Text, 500))}
					}
				} else {
					// third alone run under the REVERSED iteration order at every map/Range site: an
					// error text that survives is independent of iteration order and is compared exactly
					simrt.SetPermHook(reversed)
					var o3 Outcome
					ok := callWithTimeout(func() { o3 = aloneOp(w.Codec, prep[t][i]) })
					simrt.SetPermHook(nil)
					if !ok {
						a.SeqDeadlock = true
						return a
					}
					a.textStable[t][i] = o3.Class == "error" && o3.Text == al.Text
				}
			}
			if al.Class == "panic" && o.Class == "panic" || al.Class == "error" && o.Class == "error" && o.Text == al.Text {
				// A call that fails alone may fail in another way under another iteration order
				// INSIDE the call (a query with two bad parameters reports whichever the map range
				// reaches first): every way it fails alone is "what it returns alone".
				simrt.SetPermHook(reversed)
				var o4 Outcome
				ok := callWithTimeout(func() { o4 = aloneOp(w.Codec, prep[t][i]) })
				simrt.SetPermHook(nil)
				if !ok {
					a.SeqDeadlock = true
					return a
				}
				if o4.Class != "ok" && o4.Class != "not_run" {
					a.seqClasses[t][i][o4.Class] = true
					if o4.Class != al.Class {
						a.textStable[t][i] = false
					}
				}
			}
			if o.Class != al.Class || (o.Class == "ok" && o.Canon != al.Canon) {
				if a.SeqViolation == nil {
					a.SeqViolation = &Violation{Class: "result_differs", Task: t, Op: i, OpSpec: w.Tasks[t][i].String(),
						Detail: fmt.Sprintf("the call, run alone on a fresh instance, returned %s:%s the first time and %s:%s %s the second time in the same process (only other fresh instances were used in between): process-wide state leaks between instances",
							al.Class, al.Canon, o.Class, o.Canon, truncate(o.Text, 600))}
				}
			}
		}
	}
	addRun := func(order [][2]int, how string) {
		if a.SeqDeadlock {
			return
		}
		out, dead := runSequential(w, prep, warm, order)
		if dead {
			a.SeqDeadlock = true
			return
		}
		for _, st := range order {
			a.addSeq(w, st[0], st[1], out[st[0]][st[1]], how)
		}
		a.orders++
	}
	// (ii) every task-major order (all permutations for <=4 tasks)
	perms := permutations(len(w.Tasks), 24)
	for _, p := range perms {
		addRun(taskMajor(w, p), fmt.Sprintf("tasks one after the other in order %v on one shared instance", p))
	}
	// (iii) random op-granular merges
	rng := simrt.NewRng(simrt.Derive(seed, 0x5e9))
	for k := 0; k < merges; k++ {
		addRun(randomMerge(w, rng), "a random merge of the tasks' calls on one shared instance")
	}
	return a
}

// confirmNotSequential tries harder to find a sequential execution in which
// the failing call (t,i) fails in the observed way, before that is called a violation.
func confirmNotSequential(w *Workload, prep [][]*Prepared, warm []*Prepared, a *Admissible, t, i int, o Outcome, seed uint64) bool {
	if a.alone[t][i].Class == "ok" || o.Class == "ok" {
		return true // exact comparison: nothing to search for
	}
	rng := simrt.NewRng(simrt.Derive(seed, 0xc0f))
	for k := 0; k < 300; k++ {
		order := randomMerge(w, rng)
		out, dead := runSequential(w, prep, warm, order)
		if dead {
			return true
		}
		for _, st := range order {
			a.addSeq(w, st[0], st[1], out[st[0]][st[1]], "a random merge")
		}
		if a.has(t, i, o) {
			return false
		}
	}
	return true
}

// ---------------------------------------------------------------- judging a run

type Violation struct {
	Class  string   `json:"class"` // data_race | panic | deadlock | no_progress | result_differs
	Task   int      `json:"task"`
	Op     int      `json:"op"`
	OpSpec string   `json:"op_spec,omitempty"`
	Detail string   `json:"detail"`
	Funcs  []string `json:"funcs,omitempty"`
}

func (v *Violation) Key() string {
	switch v.Class {
	case "data_race":
		f := append([]string{}, v.Funcs...)
		sort.Strings(f)
		return "data_race@" + strings.Join(f, "+")
	case "result_differs", "panic":
		if strings.Contains(v.OpSpec, "(test.zzclash.v1.") {
			// workloads over these types contain nothing else: whatever goes wrong there is the
			// schema-name clash of known_findings.txt
			return "schema_name_clash@test.zzclash.v1"
		}
		if strings.HasPrefix(v.OpSpec, "process_history(") {
			return v.Class + "@process_history"
		}
		kind := v.OpSpec
		if i := strings.IndexByte(kind, '('); i > 0 {
			kind = kind[:i]
		}
		return v.Class + "@" + kind
	}
	return v.Class
}

// judge returns every violation of a run: first the schedule-level ones
// (deadlock, no progress, wrong result, panic), then the race report.
func judge(w *Workload, prep [][]*Prepared, warm []*Prepared, a *Admissible, res *RunResult, seed uint64, refYields int) []*Violation {
	var out []*Violation
	var race *Violation
	if res.Race != "" {
		funcs, inRepo := raceFrames(res.Race)
		race = &Violation{Class: "data_race", Task: -1, Op: -1, Detail: truncate(res.Race, 6000), Funcs: funcs}
		if !inRepo {
			race.Class = "harness_race"
		}
	}
	if res.Deadlock {
		detail := "every live task is blocked on a lock or Once that nobody can release; last site " + res.StuckSite
		if nativeFallback() {
			detail = res.StuckSite
		}
		out = append(out, &Violation{Class: "deadlock", Task: -1, Op: -1, Detail: detail})
		if race != nil {
			out = append(out, race)
		}
		return out
	}
	if res.Capped {
		out = append(out, &Violation{Class: "yield_cap", Task: -1, Op: -1, Detail: "run exceeded the yield cap at " + res.StuckSite})
		return out
	}
	if refYields > 0 && res.Stats.MaxOpYields > 100*refYields+5000 {
		out = append(out, &Violation{Class: "no_progress", Task: -1, Op: -1, Detail: fmt.Sprintf("an operation executed %d yields; the whole workload takes %d when run sequentially", res.Stats.MaxOpYields, refYields)})
	}
	found := false
	for t := range res.Outcomes {
		for i, o := range res.Outcomes[t] {
			if found || a.has(t, i, o) {
				continue
			}
			if o.Class == "not_run" {
				out = append(out, &Violation{Class: "harness_trouble", Task: t, Op: i, Detail: "operation did not run"})
				found = true
				continue
			}
			if !confirmNotSequential(w, prep, warm, a, t, i, o, seed) {
				continue
			}
			adm := []string{a.alone[t][i].Class + ":" + a.alone[t][i].Canon + " " + firstLine(a.alone[t][i].Text)}
			for c := range a.seqClasses[t][i] {
				adm = append(adm, c+" (in some sequential execution)")
			}
			sort.Strings(adm)
			cls := "result_differs"
			if o.Class == "panic" {
				cls = "panic"
			}
			out = append(out, &Violation{Class: cls, Task: t, Op: i, OpSpec: w.Tasks[t][i].String(),
				Detail: fmt.Sprintf("under simulation the call returned %s:%s %s\nrun alone it returns (and %d sequential executions on a shared instance agree): %s",
					o.Class, o.Canon, truncate(o.Text, 1200), a.orders, strings.Join(adm, " | "))})
			found = true
		}
	}
	if race != nil {
		out = append(out, race)
	}
	return out
}

func firstLine(s string) string {
	if i := strings.IndexByte(s, '\n'); i >= 0 {
		return s[:i]
	}
	return s
}

func truncate(s string, n int) string {
	if len(s) > n {
		return s[:n] + "…"
	}
	return s
}
