package main

import (
	"context"
	"fmt"
	"io/fs"
	"os"
	"sort"
	"strconv"
	"strings"

	"github.com/pentops/j5/internal/j5s/protobuild"
	"github.com/pentops/j5/internal/zzverif/j5sgen"
	"google.golang.org/protobuf/proto"
	"google.golang.org/protobuf/reflect/protodesc"
	"google.golang.org/protobuf/reflect/protoreflect"
	"google.golang.org/protobuf/reflect/protoregistry"
	"google.golang.org/protobuf/types/descriptorpb"
	"google.golang.org/protobuf/types/dynamicpb"
)

// Message types compiled from generated j5s bundles (sim/j5sgen, the C14 workload generator):
// schema shapes nobody wrote by hand - entities with keys of every format, oneofs with many arms,
// flattened members, maps and arrays of every item kind, enums with rules, nested and inline types
// three levels deep - as dynamic messages on the shared codec. Bundle k is compiled on first demand
// (catalogue keys "gen<k>:<full name>"); its descriptors live in a registry of their own, and a
// workload only ever uses the types of ONE bundle (two bundles may define one full name differently,
// which one codec cannot be asked to serve).
const genBundles = 8

var genLoaded = map[int][]*TypeInfo{}
var genFailed = map[int]string{}

type genSrc struct{ b *j5sgen.Bundle }

func (m genSrc) GetLocalFile(_ context.Context, name string) ([]byte, error) {
	if s, ok := m.b.Files[name]; ok {
		return []byte(s), nil
	}
	return nil, fmt.Errorf("%s: %w", name, fs.ErrNotExist)
}

func (m genSrc) ListPackages() []string { return append([]string{}, m.b.Packages...) }

func (m genSrc) ListSourceFiles(_ context.Context, root string) ([]string, error) {
	root = strings.ReplaceAll(root, ".", "/")
	var files []string
	for n := range m.b.Files {
		if strings.HasPrefix(n, root+"/") && !strings.HasSuffix(n, ".j5s.proto") {
			files = append(files, n)
		}
	}
	sort.Strings(files)
	return files, nil
}

type genDeps struct {
	files map[string]*descriptorpb.FileDescriptorProto
}

func (d genDeps) GetDependencyFile(name string) (*descriptorpb.FileDescriptorProto, error) {
	if f, ok := d.files[name]; ok {
		return f, nil
	}
	return nil, fmt.Errorf("could not find file %q", name)
}

func (d genDeps) ListDependencyFiles(prefix string) []string {
	var names []string
	for n := range d.files {
		if strings.HasPrefix(n, prefix) {
			names = append(names, n)
		}
	}
	sort.Strings(names)
	return names
}

// chainResolver looks a file or descriptor up in the bundle's own registry first.
type chainResolver struct{ own *protoregistry.Files }

func (c chainResolver) FindFileByPath(p string) (protoreflect.FileDescriptor, error) {
	if fd, err := c.own.FindFileByPath(p); err == nil {
		return fd, nil
	}
	return protoregistry.GlobalFiles.FindFileByPath(p)
}

func (c chainResolver) FindDescriptorByName(n protoreflect.FullName) (protoreflect.Descriptor, error) {
	if d, err := c.own.FindDescriptorByName(n); err == nil {
		return d, nil
	}
	return protoregistry.GlobalFiles.FindDescriptorByName(n)
}

// genBundle compiles bundle k (a pure function of k) and adds its message types to the catalogue.
func genBundle(k int) []*TypeInfo {
	if tis, ok := genLoaded[k]; ok {
		return tis
	}
	genLoaded[k] = nil
	fail := func(err error) []*TypeInfo {
		genFailed[k] = err.Error()
		fmt.Fprintf(os.Stderr, "generated bundle %d gives no types: %v\n", k, err)
		return nil
	}
	b := j5sgen.Generate(uint64(7000+k), j5sgen.DefaultConfig())
	deps := genDeps{files: map[string]*descriptorpb.FileDescriptorProto{}}
	for _, f := range b.Deps {
		deps.files[f.GetName()] = f
	}
	ps, err := protobuild.NewPackageSet(deps, genSrc{b})
	if err != nil {
		return fail(err)
	}
	own := &protoregistry.Files{}
	res := chainResolver{own}
	var reg func(fdp *descriptorpb.FileDescriptorProto, get func(string) *descriptorpb.FileDescriptorProto) error
	reg = func(fdp *descriptorpb.FileDescriptorProto, get func(string) *descriptorpb.FileDescriptorProto) error {
		if _, err := res.FindFileByPath(fdp.GetName()); err == nil {
			return nil
		}
		for _, d := range fdp.Dependency {
			if _, err := res.FindFileByPath(d); err == nil {
				continue
			}
			df := get(d)
			if df == nil {
				return fmt.Errorf("%s imports %s, which nobody has", fdp.GetName(), d)
			}
			if err := reg(df, get); err != nil {
				return err
			}
		}
		// through the wire form: extensions become the generated extension types
		raw, err := proto.Marshal(fdp)
		if err != nil {
			return err
		}
		fresh := &descriptorpb.FileDescriptorProto{}
		if err := proto.Unmarshal(raw, fresh); err != nil {
			return err
		}
		fd, err := protodesc.NewFile(fresh, res)
		if err != nil {
			return err
		}
		return own.RegisterFile(fd)
	}
	compiled := map[string]*descriptorpb.FileDescriptorProto{}
	var order []string
	for _, pkg := range b.Packages {
		files, err := ps.CompilePackage(context.Background(), pkg)
		if err != nil {
			return fail(fmt.Errorf("compile %s: %w", pkg, err))
		}
		for _, f := range files {
			if _, dup := compiled[f.Path()]; !dup {
				compiled[f.Path()] = protodesc.ToFileDescriptorProto(f)
				order = append(order, f.Path())
			}
		}
	}
	get := func(name string) *descriptorpb.FileDescriptorProto {
		if f, ok := compiled[name]; ok {
			return f
		}
		return deps.files[name]
	}
	for _, name := range order {
		if err := reg(compiled[name], get); err != nil {
			return fail(err)
		}
	}
	var tis []*TypeInfo
	for _, name := range order {
		fd, err := own.FindFileByPath(name)
		if err != nil {
			continue
		}
		var add func(mds protoreflect.MessageDescriptors)
		add = func(mds protoreflect.MessageDescriptors) {
			for i := 0; i < mds.Len(); i++ {
				md := mds.Get(i)
				if md.IsMapEntry() {
					continue
				}
				ti := &TypeInfo{Name: string(md.FullName()), Desc: md, Type: dynamicpb.NewMessageType(md), Pkg: fmt.Sprintf("gen%d:%s", k, fd.Package())}
				ti.Key = fmt.Sprintf("gen%d:%s", k, md.FullName())
				ti.Reflectable = !staticallyUnreflectable(md, map[protoreflect.FullName]bool{})
				catByName[ti.Key] = ti
				catalogue = append(catalogue, ti)
				if ti.Reflectable {
					tis = append(tis, ti)
				}
				add(md.Messages())
			}
		}
		add(fd.Messages())
	}
	genLoaded[k] = tis
	return tis
}

// typeByKey is the catalogue lookup for operation specs; generated bundles load on demand.
func typeByKey(key string) *TypeInfo {
	if ti, ok := catByName[key]; ok {
		return ti
	}
	if strings.HasPrefix(key, "gen") {
		if i := strings.IndexByte(key, ':'); i > 3 {
			if k, err := strconv.Atoi(key[3:i]); err == nil && k >= 0 && k < genBundles {
				genBundle(k)
				return catByName[key]
			}
		}
	}
	return nil
}
