// zzverif_c10: deterministic-simulation harness for property C10 (shared
// codecs and schema caches are safe for concurrent use). Built with -race
// inside a scratch copy of github.com/pentops/j5 instrumented by
// tools/simrewrite (passes M and Y).
package main

import (
	"encoding/json"
	"flag"
	"fmt"
	"google.golang.org/protobuf/reflect/protoreflect"
	"io"
	stdlog "log"
	"os"
	"os/exec"
	"runtime"
	"sort"
	"strings"
	"sync/atomic"
	"time"

	"github.com/pentops/j5/internal/zzverif/simrt"
	"github.com/pentops/log.go/log"
	"google.golang.org/protobuf/encoding/prototext"
	"google.golang.org/protobuf/proto"
)

func prototextish(m proto.Message) string { return prototext.MarshalOptions{}.Format(m) }

type Stats struct {
	Executions int            `json:"executions"`
	Workloads  int            `json:"workloads"`
	NonTrivial int            `json:"nontrivial"`
	Ops        int            `json:"ops"`
	Yields     int            `json:"yields"`
	Switches   int            `json:"switches"`
	ByPolicy   map[string]int `json:"by_policy"`
	ByCodec    map[string]int `json:"by_codec"`
	ByOpKind   map[string]int `json:"by_op_kind"`
	Outcomes   map[string]int `json:"outcomes"`
	Faults     map[string]int `json:"faults"`
	Probes     map[string]int `json:"probes"`
	SeqOrders  int            `json:"sequential_reference_executions"`
	TypesUsed  map[string]int `json:"types_used"`
	SwitchHist map[string]int `json:"switches_per_run_hist"`
}

func newStats() *Stats {
	return &Stats{ByPolicy: map[string]int{}, ByCodec: map[string]int{}, ByOpKind: map[string]int{}, Outcomes: map[string]int{},
		Faults: map[string]int{}, Probes: map[string]int{}, TypesUsed: map[string]int{}, SwitchHist: map[string]int{}}
}

type Replay struct {
	Property   string     `json:"property"`
	MasterSeed uint64     `json:"master_seed"`
	RunIndex   int        `json:"workload_index"`
	SchedIndex int        `json:"schedule_index"`
	Workload   *Workload  `json:"workload"`
	Run        RunCfg     `json:"run"`
	Violation  *Violation `json:"violation"`
	FindingKey string     `json:"finding_key"`
	Minimised  bool       `json:"minimised"`
	Sig        string     `json:"schedule_signature,omitempty"`
	Native     bool       `json:"native_fallback,omitempty"` // observed under real goroutine scheduling: replay is statistical
	SimsFirst  bool       `json:"sims_first,omitempty"`      // the simulated run came before the sequential reference in its process (first uses happen inside tasks)
	Alone      *AloneCase `json:"alone_case,omitempty"`
	Trace      []string   `json:"trace,omitempty"`
	Note       string     `json:"note,omitempty"`
}

// AloneCase: "the same result it returns when run alone" taken literally - alone in a fresh
// process. Target run first thing in a fresh process gives Fresh; run (still alone, on its own
// fresh instance) in a process that has executed Prelude before, it gives Here.
type AloneCase struct {
	Codec   string   `json:"codec"`
	Prelude []OpSpec `json:"prelude"`
	Target  OpSpec   `json:"target"`
	Fresh   string   `json:"fresh_outcome,omitempty"`
	Here    string   `json:"outcome_after_prelude,omitempty"`
}

// aloneInChild executes the case in a fresh single-P child process and returns the target's outcome key.
func aloneInChild(c *AloneCase) (string, error) {
	dir, err := os.MkdirTemp("", "c10alone")
	if err != nil {
		return "", err
	}
	defer os.RemoveAll(dir)
	b, _ := json.Marshal(c)
	path := dir + "/case.json"
	if err := os.WriteFile(path, b, 0o644); err != nil {
		return "", err
	}
	cmd := exec.Command(os.Args[0], "-mode", "aloneprobe", "-file", path)
	cmd.Env = append(os.Environ(), "GOMAXPROCS=1", "GORACE=log_path="+dir+"/race halt_on_error=0 exitcode=0 history_size=2")
	outb, err := cmd.Output()
	progress()
	for _, ln := range strings.Split(string(outb), "\n") {
		if strings.HasPrefix(ln, "ALONE-OUTCOME=") {
			return strings.TrimPrefix(ln, "ALONE-OUTCOME="), nil
		}
	}
	return "", fmt.Errorf("child gave no outcome (%v)", err)
}

func runAloneProbe(file string) int {
	b, err := os.ReadFile(file)
	if err != nil {
		return 2
	}
	var c AloneCase
	if err := json.Unmarshal(b, &c); err != nil {
		return 2
	}
	for _, o := range append(append([]OpSpec{}, c.Prelude...), c.Target) {
		if typeByKey(o.Type) == nil {
			fmt.Println("ALONE-ERROR unknown type", o.Type)
			return 2
		}
	}
	for _, o := range c.Prelude {
		aloneOp(c.Codec, prepare(o))
	}
	out := aloneOp(c.Codec, prepare(c.Target))
	fmt.Printf("ALONE-OUTCOME=%s\n", out.Key())
	return 0
}

type Sample struct {
	Codec    string     `json:"codec"`
	Tasks    [][]string `json:"tasks"`
	Warm     []string   `json:"warm,omitempty"`
	Policy   string     `json:"policy"`
	Switches int        `json:"switches"`
	Yields   int        `json:"yields"`
}

type WorkerResult struct {
	Worker     int       `json:"worker"`
	Stats      *Stats    `json:"stats"`
	Sigs       []uint64  `json:"nontrivial_sigs"`
	Violations []*Replay `json:"violations"`
	Samples    []Sample  `json:"samples"`
	FirstIndex int       `json:"first_index"`
	LastIndex  int       `json:"last_index"`
	WallS      float64   `json:"wall_s"`
	DetLog     []string  `json:"det_log,omitempty"`
	SiteBits   []uint64  `json:"yield_site_bits,omitempty"` // approximate set of yield sites executed (4096-bit Bloom-style set)
}

func prepareAll(w *Workload) (prep [][]*Prepared, warm []*Prepared) {
	bySpec := map[string]*Prepared{}
	for _, ops := range w.Tasks {
		var ps []*Prepared
		for _, o := range ops {
			if w.SharedInputs {
				b, _ := json.Marshal(o)
				if p, ok := bySpec[string(b)]; ok {
					p.Shared = true
					ps = append(ps, p)
					continue
				}
				p := prepare(o)
				bySpec[string(b)] = p
				ps = append(ps, p)
				continue
			}
			ps = append(ps, prepare(o))
		}
		prep = append(prep, ps)
	}
	for _, o := range w.Warm {
		warm = append(warm, prepare(o))
	}
	return
}

func genPolicy(rng *simrt.Rng, nTasks, estYields int) simrt.Policy {
	r := rng.Float64()
	switch {
	case r < 0.12:
		return simrt.Policy{Mode: "serial", SerialOrder: rng.Perm(nTasks)}
	case r < 0.70:
		p := simrt.Policy{Mode: "random"}
		p.SwitchProb = []float64{0.01, 0.05, 0.15, 0.4, 0.7}[rng.Intn(5)]
		p.StallProb = []float64{0, 0, 0.01, 0.05}[rng.Intn(4)]
		p.StallAny = []float64{0, 0, 0.003}[rng.Intn(3)]
		return p
	default:
		return simrt.Policy{Mode: "pct", PCTDepth: 1 + rng.Intn(3), EstYields: estYields,
			StallProb: []float64{0, 0.02}[rng.Intn(2)]}
	}
}

func policyName(p simrt.Policy) string {
	switch p.Mode {
	case "random":
		return fmt.Sprintf("random(p=%g,stall=%g/%g)", p.SwitchProb, p.StallProb, p.StallAny)
	case "pct":
		return fmt.Sprintf("pct(d=%d)", p.PCTDepth)
	}
	return p.Mode
}

func outcomesDigest(o [][]Outcome) string {
	var sb strings.Builder
	for _, t := range o {
		for _, x := range t {
			sb.WriteString(x.Key())
			sb.WriteString(";")
		}
		sb.WriteString("|")
	}
	return digest([]byte(sb.String()))
}

func opsStrings(ops []OpSpec) []string {
	var s []string
	for _, o := range ops {
		s = append(s, o.String())
	}
	return s
}

func main() {
	mode := flag.String("mode", "worker", "worker | replay | minimise | catalogue")
	seed := flag.Uint64("seed", 1, "master seed")
	worker := flag.Int("worker", 0, "worker index")
	workers := flag.Int("workers", 1, "number of workers (workload index stride)")
	scheds := flag.Int("scheds", 8, "simulated schedules per workload")
	maxProgs := flag.Int("max-programs", 1<<30, "stop after this many workloads (per worker)")
	budget := flag.Float64("budget", 60, "wall-clock budget in seconds")
	deep := flag.Bool("deep", false, "larger workloads")
	flag.IntVar(&coldStartK, "coldstart-k", -1, "cold-start slice: index of this process (places the first preemption)")
	flag.BoolVar(&coldStart, "coldstart", false, "cold-start slice: the very first thing this process does with the code under test is a simulated run of two or more tasks on separate or shared instances")
	out := flag.String("out", "", "result file")
	file := flag.String("file", "", "replay file")
	detlog := flag.Bool("detlog", false, "record a per-run signature log (determinism self-test)")
	flag.Parse()

	log.DefaultLogger = log.NewCallbackLogger(func(string, string, map[string]interface{}) {})
	stdlog.SetOutput(io.Discard)
	initRaceLog()
	startMainWatchdog()
	simrt.StartClock(0xc10) // from the first instruction on, instrumented code sees the simulated clock only
	buildCatalogue()

	switch *mode {
	case "worker":
		res := runWorker(*seed, *worker, *workers, *scheds, *maxProgs, *budget, *deep, *detlog, *out)
		b, _ := json.Marshal(res)
		if *out == "" {
			os.Stdout.Write(b)
		} else if err := os.WriteFile(*out, b, 0o644); err != nil {
			fmt.Fprintln(os.Stderr, err)
			os.Exit(2)
		}
	case "replay":
		runtime.GOMAXPROCS(1) // per-P state (sync.Pool) must not depend on where goroutines land
		os.Exit(runReplay(*file, true))
	case "minimise":
		os.Exit(runMinimise(*file, *out))
	case "aloneprobe":
		runtime.GOMAXPROCS(1)
		os.Exit(runAloneProbe(*file))
	case "showop":
		rp, err := loadReplay(*file)
		if err != nil {
			fmt.Fprintln(os.Stderr, err)
			os.Exit(2)
		}
		for t, ops := range rp.Workload.Tasks {
			for i, o := range ops {
				p := prepare(o)
				env := newEnv(rp.Workload.Codec)
				fmt.Printf("T%d.%d %s\n  msg: %s\n", t, i, o.String(), truncate(prototextish(p.Msg), 3000))
				if env.codec != nil {
					b, err := safeEncode(env.codec, proto.Clone(p.Msg).ProtoReflect())
					fmt.Printf("  encode: %s err=%v canon=%s\n", b, err, canonJSON(b))
				}
				fmt.Printf("  outcome: %+v\n", execOp(env, p))
			}
		}
	case "catalogue":
		for _, t := range catalogue {
			fmt.Printf("%-60s reflectable=%v\n", t.Name, t.Reflectable)
		}
		fmt.Printf("%d types, %d reflectable\n", len(catalogue), len(goodTypes))
	default:
		fmt.Fprintln(os.Stderr, "unknown mode")
		os.Exit(2)
	}
}

func runWorker(master uint64, worker, workers, scheds, maxProgs int, budget float64, deep, detlog bool, outPath string) *WorkerResult {
	start := time.Now()
	res := &WorkerResult{Worker: worker, Stats: newStats(), FirstIndex: -1}
	st := res.Stats
	genTypesEnabled = worker%3 == 2
	sigs := map[uint64]bool{}
	seenKeys := map[string]bool{}
	var siteBits [64]uint64
	defer func() { res.SiteBits = siteBits[:] }()
	progs := 0
	if catalogueHang != "" {
		w := &Workload{Codec: "new", Tasks: [][]OpSpec{{{Kind: "encode", Type: catalogueHang, ValSeed: 1}}}}
		v := &Violation{Class: "deadlock", Task: -1, Op: -1, Detail: "the very first encode of an empty " + catalogueHang + " on a fresh codec never returns (15 s)"}
		res.Violations = append(res.Violations, &Replay{Property: "C10", MasterSeed: master, RunIndex: -1, SchedIndex: -1, Workload: w,
			Run: RunCfg{Policy: simrt.Policy{Mode: "serial"}}, Violation: v, FindingKey: v.Key(), Minimised: true, Note: "found while building the type catalogue"})
		st.Executions++
		res.WallS = time.Since(start).Seconds()
		return res
	}
	for idx := worker; progs < maxProgs; idx += workers {
		if time.Since(start).Seconds() > budget {
			break
		}
		progs++
		if res.FirstIndex < 0 {
			res.FirstIndex = idx
		}
		res.LastIndex = idx
		wseed := simrt.Derive(master, 0x10, uint64(idx))
		w := genWorkload(wseed, deep)
		if coldStart {
			// whatever is initialised once per PROCESS (lazily filled package-level tables, sync.Once,
			// registries) is initialised by several tasks at once here, on instances of their own or
			// on a shared one; no warm-up, nothing before the tasks
			w.Codec = []string{"two_codecs", "two_codecs", "two_codecs", "global", "shared_cache"}[simrt.Derive(wseed, 0xc01d)%5]
			w.Warm = nil
			// only operations whose INPUT can be prepared without the code under test (a decode
			// input is made by encoding with a private codec - which would be the first use)
			for t := range w.Tasks {
				for i := range w.Tasks[t] {
					switch o := &w.Tasks[t][i]; o.Kind {
					case "decode", "query", "decode_any":
						o.Kind = []string{"encode", "encode_any", "walk"}[int(o.ValSeed>>8)%3]
						o.Mutate = 0
					}
				}
			}
			if w.Codec == "two_codecs" {
				// two instances that share nothing but the process: tasks alternate between them, and
				// most operations are on types with well-known / j5 scalar-like members (timestamps,
				// dates, decimals, anys), whose handling is the classic process-wide table
				crng := simrt.NewRng(simrt.Derive(wseed, 0xc01e))
				users := wktUsers()
				for t := range w.Tasks {
					for i := range w.Tasks[t] {
						o := &w.Tasks[t][i]
						if len(users) > 0 && (i == 0 || crng.Bool(0.7)) && o.Kind != "fill" && o.Kind != "soak" {
							o.Type = users[crng.Intn(len(users))].key()
							o.Mutate, o.Poison, o.NilOneof = 0, 0, false
						}
						if t%2 == 0 {
							o.ValSeed &^= 16
						} else {
							o.ValSeed |= 16
						}
					}
				}
			}
		}
		scheds := scheds
		seqOrders := 4
		if coldStart {
			scheds = 4 // only the first run of the process meets process-wide state cold
		}
		for _, ops := range w.Tasks {
			for _, o := range ops {
				if o.Kind == "fill" {
					// several hundred first uses per execution: fewer executions of this workload
					scheds, seqOrders = 3, 2
				}
			}
		}
		prep, warm := prepareAll(w)
		st.Workloads++
		st.ByCodec[w.Codec]++
		for _, ops := range w.Tasks {
			for _, o := range ops {
				st.ByOpKind[o.Kind]++
				st.TypesUsed[o.Type]++
				if o.Mutate != 0 {
					st.Faults["failing_op"]++
				}
				if o.Poison != 0 {
					st.Faults["failing_encode"]++
				}
				if ti := typeByKey(o.Type); ti != nil && !ti.Reflectable {
					st.Faults["failing_first_use"]++
				}
			}
		}
		progress()
		for _, ops := range w.Tasks {
			for _, o := range ops {
				recentOps = append(recentOps, recentOp{w.Codec, o})
			}
		}
		if len(recentOps) > 400 {
			recentOps = recentOps[len(recentOps)-400:]
		}
		writeMarker := func(s int, cfg RunCfg) {
			if outPath == "" {
				return
			}
			// marker for the driver: if this process dies, this is the run that killed it
			cur := &Replay{Property: "C10", MasterSeed: master, RunIndex: idx, SchedIndex: s, Workload: w, Run: cfg,
				Violation: &Violation{Class: "process_crash", Task: -1, Op: -1}, FindingKey: "process_crash"}
			b, _ := json.Marshal(cur)
			_ = os.WriteFile(outPath+".current", b, 0o644)
		}
		// Half of the workloads run their simulated schedules BEFORE the sequential reference is
		// computed, so that the first use of a type in this process (and with it the first touch of
		// any process-wide state behind it) happens inside simulated tasks and not on the main
		// goroutine, whose accesses are ordered before everything the tasks do.
		simsFirst := (coldStart || simrt.Derive(wseed, 0xf1)%2 == 0) && !nativeFallback()
		type pendingRun struct {
			s   int
			cfg RunCfg
			pol simrt.Policy
			r   *RunResult
		}
		var pend []pendingRun
		estYields := 0
		stopWorker := false
		runOne := func(s int) pendingRun {
			rng := simrt.NewRng(simrt.Derive(wseed, 0x5c, uint64(s)))
			var pol simrt.Policy
			if s == 0 && coldStart {
				// the first run of the process is the only one that meets process-wide state cold:
				// it must not be the serial one
				// ... and the place where the first task is preempted is SWEPT across the cold-start
				// processes: groups of 32 processes run the same workload, process k of a group lets the
				// first task run for about 7k yields and then drops it below the others, which run
				// undisturbed: a window of a few yields in the first 220 is met by some process
				pol = simrt.Policy{Mode: "pct", PCTDepth: 1, EstYields: 400, PCTPoints: []int{7*(coldStartK%32) + int(rng.Intn(7))}}
				if coldStartK < 0 {
					pol = simrt.Policy{Mode: "random", SwitchProb: 0.15}
				}
				pol.MaxYields = 1 << 40
			} else if s == 0 {
				pol = simrt.Policy{Mode: "serial", SerialOrder: rng.Perm(len(w.Tasks)), MaxYields: 1 << 40}
			} else {
				pol = genPolicy(rng, len(w.Tasks), estYields)
				// the cap that turns a livelock into a finding scales with what the workload needs
				// when nobody is in anybody's way
				if 40*estYields > 200000 {
					pol.MaxYields = 40 * estYields
				}
			}
			cfg := RunCfg{Seed: rng.Uint64(), PermSeed: simrt.Derive(wseed, 0x9e, uint64(s)), Policy: pol}
			writeMarker(s, cfg)
			progress()
			r := runSim(w, prep, warm, cfg, false)
			if s == 0 {
				estYields = r.Stats.Yields
			}
			st.Executions++
			st.Ops += w.NumOps()
			st.Yields += r.Stats.Yields
			st.Switches += r.Stats.Switches
			st.ByPolicy[pol.Mode]++
			st.Faults["stall"] += r.Stats.Stalls
			st.Faults["stall_in_build"] += r.Stats.StallsInBuild
			st.Faults["lock_contention"] += r.Stats.LockContention
			st.Probes["switch_while_in_schema_build"] += r.Stats.SwitchInBuild
			st.Probes["overlap_enter_build_while_other_inside"] += r.Stats.OverlapBuild
			st.Probes["blocked_yields"] += r.Stats.BlockedYields
			st.Probes["once_waits"] += r.Stats.OnceWaits
			st.Probes["rwmutex_writer_queued"] += r.Stats.WriterQueued
			st.Probes["cond_waits"] += r.Stats.CondWaits
			st.Probes["goroutines_of_the_code_under_test_scheduled"] += r.Stats.GoTasks
			st.Probes["waitgroup_waits"] += r.Stats.WgWaits
			st.Probes["timers_armed"] += r.Stats.TimersArmed
			st.Probes["timers_fired"] += r.Stats.TimersFired
			st.Probes["clock_jumps_to_next_timer"] += r.Stats.TimerJumps
			st.SwitchHist[bucket(r.Stats.Switches)]++
			for k := range siteBits {
				siteBits[k] |= r.SiteBits[k]
			}
			return pendingRun{s, cfg, pol, r}
		}
		if simsFirst {
			st.Probes["workloads_simulated_before_reference"]++
			for s := 0; s < scheds; s++ {
				if s%4 == 3 && time.Since(start).Seconds() > budget {
					break
				}
				pr := runOne(s)
				pend = append(pend, pr)
				if pr.r.Deadlock || pr.r.Capped {
					break
				}
			}
		}
		writeMarker(-1, RunCfg{Policy: simrt.Policy{Mode: "serial"}})
		var adm *Admissible
		if len(pend) > 0 && (pend[len(pend)-1].r.Deadlock || pend[len(pend)-1].r.Capped) {
			adm = &Admissible{} // leaked goroutines: no further executions in this process
		} else {
			adm = computeAdmissible(w, prep, warm, wseed, seqOrders)
			st.SeqOrders += adm.orders + w.NumOps()
		}
		if adm.SeqViolation != nil {
			v := adm.SeqViolation
			st.Executions++
			st.Probes["workloads_rejected_by_sequential_reference"]++
			if !seenKeys[v.Key()] && seqVerifyBudget > 0 {
				// A sequential anomaly can be caused by process-wide state that an EARLIER workload of
				// this process left behind; only a workload that shows it by itself, in a fresh
				// process, is reported (and is then exactly replayable).
				seqVerifyBudget--
				rp := &Replay{Property: "C10", MasterSeed: master, RunIndex: idx, SchedIndex: -1, Workload: w,
					Run: RunCfg{Policy: simrt.Policy{Mode: "serial"}}, Violation: v, FindingKey: v.Key(), Note: "found by the sequential reference execution (no concurrency needed)"}
				if probeInChild(rp, outPath) == v.Key() {
					seenKeys[v.Key()] = true
					res.Violations = append(res.Violations, rp)
				} else {
					st.Probes["sequential_anomaly_not_reproduced_in_fresh_process"]++
					wj, _ := json.Marshal(w)
					fmt.Fprintf(os.Stderr, "sequential anomaly not reproduced in a fresh process: workload %d %s\n  %s\n  %s\n", idx, wj, v.OpSpec, strings.ReplaceAll(truncate(v.Detail, 1500), "\n", "\n  "))
				}
			}
			// races seen by the simulated runs of this workload are reported all the same
			for _, pr := range pend {
				if pr.r.Race == "" {
					continue
				}
				funcs, inRepo := raceFrames(pr.r.Race)
				rv := &Violation{Class: "data_race", Task: -1, Op: -1, Detail: truncate(pr.r.Race, 6000), Funcs: funcs}
				if !inRepo {
					rv.Class = "harness_race"
				}
				if !seenKeys[rv.Key()] {
					seenKeys[rv.Key()] = true
					fcfg := pr.cfg
					fcfg.Policy = simrt.Policy{Mode: "forced", Forced: pr.r.Switches}
					res.Violations = append(res.Violations, &Replay{Property: "C10", MasterSeed: master, RunIndex: idx, SchedIndex: pr.s, Workload: w, Run: fcfg, Violation: rv, FindingKey: rv.Key(),
						Sig: fmt.Sprintf("%016x", pr.r.Sig), Note: "found under policy " + policyName(pr.pol), SimsFirst: simsFirst})
				}
			}
			continue
		}
		if adm.SeqDeadlock {
			v := &Violation{Class: "deadlock", Task: -1, Op: -1, Detail: "a purely sequential execution of this workload on one shared instance blocks forever (a lock is never released)"}
			res.Violations = append(res.Violations, &Replay{Property: "C10", MasterSeed: master, RunIndex: idx, SchedIndex: -1, Workload: w,
				Run: RunCfg{Policy: simrt.Policy{Mode: "serial"}}, Violation: v, FindingKey: v.Key(), Note: "found by the sequential reference execution"})
			st.Executions++
			goto done
		}
		// fresh-process alone probe: does "alone" in this (long-lived) process still mean what it means
		// in a fresh one? Dynamic twins first (state keyed by name instead of by descriptor shows there).
		if aloneProbeBudget > 0 && !seenKeys["result_differs@process_history"] {
			tt, ti := -1, -1
			for t, ops := range w.Tasks {
				for i, o := range ops {
					if strings.HasPrefix(o.Type, "twin:") && tt < 0 {
						tt, ti = t, i
					}
				}
			}
			if tt < 0 && simrt.Derive(wseed, 0xa10)%40 == 0 {
				tt, ti = 0, 0
			}
			if tt >= 0 {
				aloneProbeBudget--
				st.Probes["fresh_process_alone_probes"]++
				target := w.Tasks[tt][ti]
				here := adm.alone[tt][ti].Key()
				if fresh, err := aloneInChild(&AloneCase{Codec: w.Codec, Target: target}); err == nil && fresh != here {
					// which earlier calls are responsible? all recent ones first, then shrink
					var pre []OpSpec
					for _, ro := range recentOps {
						if ro.codec == w.Codec || true {
							pre = append(pre, ro.op)
						}
					}
					c := &AloneCase{Codec: w.Codec, Prelude: pre, Target: target, Fresh: fresh, Here: here}
					if got, err := aloneInChild(c); err == nil && got != fresh {
						for chunk := len(c.Prelude) / 2; chunk >= 1; chunk /= 2 {
							for k := 0; k+chunk <= len(c.Prelude); {
								cand := &AloneCase{Codec: c.Codec, Target: target, Prelude: append(append([]OpSpec{}, c.Prelude[:k]...), c.Prelude[k+chunk:]...)}
								if g, err := aloneInChild(cand); err == nil && g != fresh {
									c.Prelude = cand.Prelude
									c.Here = g
								} else {
									k += chunk
								}
							}
						}
						v := &Violation{Class: "result_differs", Task: tt, Op: ti, OpSpec: "process_history(" + target.String() + ")",
							Detail: fmt.Sprintf("%s run alone first thing in a fresh process returns %s; run alone, on its own fresh instance, in a process that executed %v before, it returns %s: process-wide state leaks between instances", target.String(), fresh, opsStrings(c.Prelude), c.Here)}
						seenKeys["result_differs@process_history"] = true
						res.Violations = append(res.Violations, &Replay{Property: "C10", MasterSeed: master, RunIndex: idx, SchedIndex: -1,
							Workload: &Workload{Codec: w.Codec, Tasks: [][]OpSpec{{target}}}, Run: RunCfg{Policy: simrt.Policy{Mode: "serial"}},
							Violation: v, FindingKey: v.Key(), Minimised: true, Alone: c, Note: "found by the fresh-process alone probe"})
					} else {
						st.Probes["sequential_anomaly_not_reproduced_in_fresh_process"]++
						fmt.Fprintf(os.Stderr, "alone probe anomaly not reproduced: workload %d codec %s target %s %s: fresh process %s, here %s, with the recent calls as prelude %s (%v)\n", idx, w.Codec, target.String(), func() string { b, _ := json.Marshal(target); return string(b) }(), fresh, here, got, err)
					}
				}
			}
		}
		process := func(pr pendingRun) {
			s, cfg, pol, r := pr.s, pr.cfg, pr.pol, pr.r
			vs := judge(w, prep, warm, adm, r, wseed, estYields)
			if !r.Deadlock && !r.Capped {
				for _, t := range r.Outcomes {
					for _, o := range t {
						st.Outcomes[o.Class]++
					}
				}
			}
			nt := len(w.Tasks) >= 2 && (r.Stats.SwitchInBuild > 0 || nativeFallback())
			if nativeFallback() {
				st.Probes["native_mode_runs"]++
			}
			if nt {
				st.NonTrivial++
				if nativeFallback() {
					sigs[simrt.Derive(simrt.HashString(w.Digest()), uint64(s))] = true // distinct (workload, repetition) pairs: schedules are not observable
				} else {
					sigs[r.Sig^simrt.HashString(w.Digest())] = true
				}
			}
			if detlog {
				od := "-"
				if !r.Deadlock && !r.Capped {
					od = outcomesDigest(r.Outcomes)
				}
				nonRace := 0
				for _, v := range vs {
					if v.Class != "data_race" {
						nonRace++
					}
				}
				if nativeFallback() {
					res.DetLog = append(res.DetLog, fmt.Sprintf("%d/%d native out=%s v=%d", idx, s, od, nonRace))
				} else {
					res.DetLog = append(res.DetLog, fmt.Sprintf("%d/%d sig=%016x y=%d sw=%d out=%s v=%d", idx, s, r.Sig, r.Stats.Yields, r.Stats.Switches, od, nonRace))
				}
			}
			if len(res.Samples) < 2 && nt {
				sm := Sample{Codec: w.Codec, Warm: opsStrings(w.Warm), Policy: policyName(pol), Switches: r.Stats.Switches, Yields: r.Stats.Yields}
				for _, ops := range w.Tasks {
					sm.Tasks = append(sm.Tasks, opsStrings(ops))
				}
				res.Samples = append(res.Samples, sm)
			}
			if detlog || len(vs) > 0 {
				// exact-replay self-check: the recorded switch list must reproduce the run
				if !r.Deadlock && !r.Capped && !nativeFallback() {
					fc := cfg
					fc.Policy = simrt.Policy{Mode: "forced", Forced: r.Switches, MaxYields: cfg.Policy.MaxYields}
					r2 := runSim(w, prep, warm, fc, false)
					if r2.Sig != r.Sig || r2.Deadlock || r2.Capped {
						st.Probes["replay_signature_mismatch"]++
						fmt.Fprintf(os.Stderr, "replay signature mismatch at workload %d schedule %d (%s)\n", idx, s, policyName(pol))
					} else {
						st.Probes["replay_signature_match"]++
					}
					if r2.Race != "" && r.Race == "" {
						r.Race = r2.Race
						vs = judge(w, prep, warm, adm, r, wseed, estYields)
					}
				}
			}
			for _, v := range vs {
				key := v.Key()
				if !seenKeys[key] {
					seenKeys[key] = true
					fcfg := cfg
					fcfg.Policy = simrt.Policy{Mode: "forced", Forced: r.Switches, MaxYields: cfg.Policy.MaxYields}
					rp := &Replay{Property: "C10", MasterSeed: master, RunIndex: idx, SchedIndex: s, Workload: w, Run: fcfg, Violation: v, FindingKey: key,
						Sig: fmt.Sprintf("%016x", r.Sig), Note: "found under policy " + policyName(pol), Native: nativeFallback(), SimsFirst: simsFirst}
					res.Violations = append(res.Violations, rp)
				}
			}
			if r.Deadlock || r.Capped || spinLeak {
				// parked goroutines cannot be reclaimed: end this worker here
				stopWorker = true
			}
		}
		for _, pr := range pend {
			process(pr)
			if stopWorker {
				goto done
			}
		}
		if !simsFirst {
			for s := 0; s < scheds; s++ {
				if s%4 == 3 && time.Since(start).Seconds() > budget {
					break
				}
				process(runOne(s))
				if stopWorker {
					goto done
				}
			}
		}
	}
done:
	if dynNative != "" {
		st.Probes["dynamic_native_fallback"] = 1
	}
	for s := range sigs {
		res.Sigs = append(res.Sigs, s)
	}
	sort.Slice(res.Sigs, func(i, j int) bool { return res.Sigs[i] < res.Sigs[j] })
	res.WallS = time.Since(start).Seconds()
	if outPath != "" {
		_ = os.Remove(outPath + ".current")
	}
	return res
}

// coldStart: see the -coldstart flag
var coldStart bool
var coldStartK int

var wktUserList []*TypeInfo

// wktUsers: reflectable catalogue types with a direct member of a well-known or j5 scalar-like
// message type.
func wktUsers() []*TypeInfo {
	if wktUserList != nil {
		return wktUserList
	}
	for _, ti := range goodTypes {
		fields := ti.Desc.Fields()
		for i := 0; i < fields.Len(); i++ {
			fd := fields.Get(i)
			if fd.Kind() != protoreflect.MessageKind {
				continue
			}
			md := fd.Message()
			if fd.IsMap() {
				if fd.MapValue().Kind() != protoreflect.MessageKind {
					continue
				}
				md = fd.MapValue().Message()
			}
			n := string(md.FullName())
			if n == "google.protobuf.Timestamp" || n == "google.protobuf.Duration" || strings.HasPrefix(n, "j5.types.") {
				wktUserList = append(wktUserList, ti)
				break
			}
		}
	}
	return wktUserList
}

var seqVerifyBudget = 12

// aloneProbeBudget bounds the child processes a worker spawns for fresh-process alone probes.
var aloneProbeBudget = 10

type recentOp struct {
	codec string
	op    OpSpec
}

// recentOps: the operations this process has executed lately, oldest first.
var recentOps []recentOp

// probeInChild runs one replay file in a fresh single-P process and returns the key of the
// violation it shows ("" if none).
func probeInChild(rp *Replay, outPath string) string {
	dir, err := os.MkdirTemp("", "c10probe")
	if err != nil {
		return ""
	}
	defer os.RemoveAll(dir)
	b, _ := json.Marshal(rp)
	path := dir + "/cand.json"
	if err := os.WriteFile(path, b, 0o644); err != nil {
		return ""
	}
	cmd := exec.Command(os.Args[0], "-mode", "probe", "-file", path)
	cmd.Env = append(os.Environ(), "GOMAXPROCS=1", "GORACE=log_path="+dir+"/race halt_on_error=0 exitcode=0 history_size=4")
	outb, _ := cmd.Output()
	progress()
	for _, ln := range strings.Split(string(outb), "\n") {
		if strings.HasPrefix(ln, "PROBE-KEY=") {
			return strings.TrimPrefix(ln, "PROBE-KEY=")
		}
	}
	return ""
}

var lastProgress atomic.Int64

func progress() { lastProgress.Store(time.Now().Unix()) }

// startMainWatchdog aborts the process (status 3 = machinery trouble) when the
// harness itself makes no progress, e.g. because code under test blocks the
// main goroutine outside any simulation.
func startMainWatchdog() {
	progress()
	go func() {
		for {
			time.Sleep(5 * time.Second)
			if time.Now().Unix()-lastProgress.Load() > 240 {
				fmt.Fprintln(os.Stderr, "WATCHDOG: harness made no progress for 240s (code under test blocked the main goroutine outside a simulation)")
				buf := make([]byte, 1<<18)
				n := runtime.Stack(buf, true)
				os.Stderr.Write(buf[:n])
				os.Exit(3)
			}
		}
	}()
}

func bucket(n int) string {
	switch {
	case n == 0:
		return "0"
	case n <= 2:
		return "1-2"
	case n <= 5:
		return "3-5"
	case n <= 10:
		return "6-10"
	case n <= 30:
		return "11-30"
	}
	return ">30"
}

// ---------------------------------------------------------------- replay

func loadReplay(file string) (*Replay, error) {
	b, err := os.ReadFile(file)
	if err != nil {
		return nil, err
	}
	var rp Replay
	if err := json.Unmarshal(b, &rp); err != nil {
		return nil, err
	}
	for _, ops := range rp.Workload.Tasks {
		for _, o := range ops {
			if typeByKey(o.Type) == nil {
				return nil, fmt.Errorf("type %s is not in the catalogue of this build", o.Type)
			}
		}
	}
	return &rp, nil
}

// replayOnce executes the recorded run; returns the violation with the
// recorded key if it occurs, else any other violation of the run.
func replayOnce(rp *Replay, attempts int, keepEvents bool) (*Violation, *RunResult) {
	w := rp.Workload
	prep, warm := prepareAll(w)
	want := rp.Violation.Key()
	var first *RunResult
	if rp.SimsFirst && rp.Run.Policy.Mode != "serial" || rp.SimsFirst && rp.Violation.Class == "data_race" {
		// as in the worker that found it: the simulated run comes first, so that first uses of types
		// (and of process-wide state behind them) happen inside the tasks
		first = runSim(w, prep, warm, rp.Run, keepEvents)
	}
	adm := computeAdmissible(w, prep, warm, 1, 4)
	if adm.SeqViolation != nil {
		return adm.SeqViolation, &RunResult{}
	}
	if adm.SeqDeadlock {
		return &Violation{Class: "deadlock", Task: -1, Op: -1, Detail: "a purely sequential execution of this workload on one shared instance blocks forever (a lock is never released)"}, &RunResult{Deadlock: true}
	}
	var last *RunResult
	var other *Violation
	for a := 0; a < attempts; a++ {
		r := first
		first = nil
		if r == nil {
			r = runSim(w, prep, warm, rp.Run, keepEvents)
		}
		last = r
		for _, v := range judge(w, prep, warm, adm, r, 1, 0) {
			if v.Key() == want {
				return v, r
			}
			if other == nil {
				other = v
			}
		}
		if r.Deadlock || r.Capped {
			break
		}
		if rp.Violation.Class != "data_race" && !nativeFallback() {
			break // everything but race reports is a pure function of the file
		}
	}
	return other, last
}

func runReplay(file string, verbose bool) int {
	rp, err := loadReplay(file)
	if err != nil {
		fmt.Fprintln(os.Stderr, "replay:", err)
		return 2
	}
	if rp.Alone != nil {
		fresh, err1 := aloneInChild(&AloneCase{Codec: rp.Alone.Codec, Target: rp.Alone.Target})
		after, err2 := aloneInChild(rp.Alone)
		if err1 != nil || err2 != nil {
			fmt.Println("REPLAY: child process failed:", err1, err2)
			return 2
		}
		if fresh != after {
			fmt.Printf("REPLAY: violation class=%s key=%s: %s run alone first thing in a fresh process returns %s; run alone (on its own fresh instance) in a process that executed %v before, it returns %s\n",
				rp.Violation.Class, rp.Violation.Key(), rp.Alone.Target.String(), fresh, opsStrings(rp.Alone.Prelude), after)
			return 1
		}
		fmt.Println("REPLAY: no violation (same outcome with and without the earlier calls)")
		return 0
	}
	// A race report depends on sync.Pool traffic inside fmt (which the race runtime treats as
	// synchronisation and which drops items at random), so it is retried on fresh instances.
	v, r := replayOnce(rp, 25, verbose)
	if v == nil {
		if verbose {
			fmt.Println("REPLAY: no violation (the recorded violation does not occur on this tree)")
		}
		return 0
	}
	if verbose {
		fmt.Printf("REPLAY: violation class=%s key=%s task=%d op=%d %s\n%s\n", v.Class, v.Key(), v.Task, v.Op, v.OpSpec, indent(truncate(v.Detail, 3000)))
		fmt.Printf("  shared object: %s", rp.Workload.Codec)
		if len(rp.Workload.Warm) > 0 {
			fmt.Printf(", warmed by %v", opsStrings(rp.Workload.Warm))
		}
		fmt.Println()
		for t, ops := range rp.Workload.Tasks {
			fmt.Printf("  T%d: %s\n", t, strings.Join(opsStrings(ops), "; "))
		}
		fmt.Printf("  schedule: %d yields, %d switches, signature %016x\n", r.Stats.Yields, r.Stats.Switches, r.Sig)
		if len(r.Switches) > 0 && len(r.Switches) <= 40 {
			var sw []string
			for _, x := range r.Switches {
				if x.From < 0 {
					sw = append(sw, fmt.Sprintf("start T%d", x.To))
				} else {
					sw = append(sw, fmt.Sprintf("T%d after its yield #%d -> T%d", x.From, x.At, x.To))
				}
			}
			fmt.Printf("  switches: %s\n", strings.Join(sw, ", "))
		}
		if rp.Sig != "" && !rp.Minimised && rp.Sig != fmt.Sprintf("%016x", r.Sig) {
			fmt.Printf("  NOTE: schedule signature differs from the recorded one (%s): the tree changed the yield sequence\n", rp.Sig)
		}
	}
	if v.Class == "harness_race" || v.Class == "harness_trouble" || v.Class == "yield_cap" {
		return 2
	}
	return 1
}

func indent(s string) string { return "  " + strings.ReplaceAll(s, "\n", "\n  ") }

// ---------------------------------------------------------------- minimise

// runMinimise shrinks the workload and the schedule. Every candidate is
// executed in a fresh process (race reports are de-duplicated per process).
func runMinimise(file, out string) int {
	rp, err := loadReplay(file)
	if err != nil {
		fmt.Fprintln(os.Stderr, "minimise:", err)
		return 2
	}
	if rp.Alone != nil {
		rp.Minimised = true
		b, _ := json.MarshalIndent(rp, "", " ")
		_ = os.WriteFile(out, b, 0o644)
		return 0
	}
	key := rp.Violation.Key()
	class := rp.Violation.Class
	tmp, _ := os.MkdirTemp("", "c10min")
	defer os.RemoveAll(tmp)
	budget := 220
	deadline := time.Now().Add(60 * time.Second) // wall-clock cap: a report matters more than a minimal one
	n := 0
	try := func(c *Replay) bool {
		if budget <= 0 || time.Now().After(deadline) {
			return false
		}
		budget--
		n++
		path := fmt.Sprintf("%s/cand%d.json", tmp, n)
		b, _ := json.Marshal(c)
		_ = os.WriteFile(path, b, 0o644)
		cmd := exec.Command(os.Args[0], "-mode", "probe", "-file", path)
		cmd.Env = append(os.Environ(), "GORACE=log_path="+tmp+"/race halt_on_error=0 exitcode=0 history_size=4")
		outb, _ := cmd.Output()
		return strings.Contains(string(outb), "PROBE-KEY="+key+"\n")
	}
	_ = class
	cur := *rp
	if !try(&cur) {
		rp.Note += "; minimiser could not re-trigger the violation in a fresh process (unminimised)"
		b, _ := json.MarshalIndent(rp, "", " ")
		_ = os.WriteFile(out, b, 0o644)
		return 0
	}
	withPolicies := func(w *Workload) *Replay {
		// candidate workloads are tried under the recorded schedule first, then under serial orders
		cands := []simrt.Policy{cur.Run.Policy}
		for _, p := range permutations(len(w.Tasks), 5) {
			cands = append(cands, simrt.Policy{Mode: "serial", SerialOrder: p})
			if len(cands) > 4 {
				break
			}
		}
		for _, pol := range cands {
			c := cur
			c.Workload = w
			c.Run.Policy = pol
			if try(&c) {
				return &c
			}
		}
		return nil
	}
	cloneW := func(w *Workload) *Workload {
		b, _ := json.Marshal(w)
		var c Workload
		_ = json.Unmarshal(b, &c)
		return &c
	}
	// 1. drop warm-up, whole tasks, single operations
	for changed := true; changed; {
		changed = false
		if len(cur.Workload.Warm) > 0 {
			w := cloneW(cur.Workload)
			w.Warm = nil
			if c := withPolicies(w); c != nil {
				cur = *c
				changed = true
			}
		}
		for t := len(cur.Workload.Tasks) - 1; t >= 0 && len(cur.Workload.Tasks) > 1; t-- {
			w := cloneW(cur.Workload)
			w.Tasks = append(w.Tasks[:t], w.Tasks[t+1:]...)
			if c := withPolicies(w); c != nil {
				cur = *c
				changed = true
			}
		}
		for t := 0; t < len(cur.Workload.Tasks); t++ {
			for i := len(cur.Workload.Tasks[t]) - 1; i >= 0 && len(cur.Workload.Tasks[t]) > 1; i-- {
				w := cloneW(cur.Workload)
				w.Tasks[t] = append(w.Tasks[t][:i], w.Tasks[t][i+1:]...)
				if c := withPolicies(w); c != nil {
					cur = *c
					changed = true
				}
			}
		}
	}
	// 2. simpler operations: plain encode instead of the recorded kind, well-formed instead of malformed
	for t := range cur.Workload.Tasks {
		for i := range cur.Workload.Tasks[t] {
			o := cur.Workload.Tasks[t][i]
			if o.Mutate != 0 {
				w := cloneW(cur.Workload)
				w.Tasks[t][i].Mutate = 0
				if c := withPolicies(w); c != nil {
					cur = *c
				}
			}
			if o.Kind != "encode" {
				w := cloneW(cur.Workload)
				w.Tasks[t][i].Kind = "encode"
				if c := withPolicies(w); c != nil {
					cur = *c
				}
			}
		}
	}
	if cur.Workload.Codec != "new" {
		w := cloneW(cur.Workload)
		w.Codec = "new"
		if c := withPolicies(w); c != nil {
			cur = *c
		}
	}
	// 3. schedule: turn into an explicit switch list and remove switches
	if cur.Run.Policy.Mode == "forced" {
		sw := cur.Run.Policy.Forced
		for chunk := len(sw) / 2; chunk >= 1; chunk /= 2 {
			for i := 0; i+chunk <= len(sw); {
				cand := append(append([]simrt.Switch{}, sw[:i]...), sw[i+chunk:]...)
				c := cur
				c.Run.Policy = simrt.Policy{Mode: "forced", Forced: cand}
				if try(&c) {
					sw = cand
					cur = c
				} else {
					i += chunk
				}
			}
		}
	}
	cur.Minimised = true
	cur.Note += fmt.Sprintf("; minimised with %d candidate executions in fresh processes", n)
	// final trace for the report
	cur.FindingKey = key
	b, _ := json.MarshalIndent(&cur, "", " ")
	if err := os.WriteFile(out, b, 0o644); err != nil {
		fmt.Fprintln(os.Stderr, err)
		return 2
	}
	return 0
}

func init() {
	// "probe" mode: used by the minimiser; prints the violation key of one execution.
	if len(os.Args) > 2 && os.Args[1] == "-mode" && os.Args[2] == "probe" {
		log.DefaultLogger = log.NewCallbackLogger(func(string, string, map[string]interface{}) {})
		stdlog.SetOutput(io.Discard)
		runtime.GOMAXPROCS(1)
		initRaceLog()
		buildCatalogue()
		file := ""
		for i, a := range os.Args {
			if a == "-file" && i+1 < len(os.Args) {
				file = os.Args[i+1]
			}
		}
		rp, err := loadReplay(file)
		if err != nil {
			fmt.Println("PROBE-ERROR", err)
			os.Exit(2)
		}
		v, _ := replayOnce(rp, 6, false)
		if v != nil {
			fmt.Printf("PROBE-KEY=%s\n", v.Key())
		} else {
			fmt.Println("PROBE-NONE")
		}
		os.Exit(0)
	}
}
