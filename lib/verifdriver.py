import atexit, hashlib, json, os, shutil, signal, subprocess, sys, tempfile, time

VERIF = os.path.abspath(os.path.join(os.path.dirname(os.path.abspath(__file__)), ".."))
REPO = os.environ.get("VERIF_REPO", "/repo")
GO = "go1.26.8"
GOROOT_BIN = "/opt/veriftools/go1.26.8/bin"

def goenv(extra=None):
    e = dict(os.environ)
    e.update({"GOFLAGS": "-mod=mod", "GOPROXY": "off", "GOSUMDB": "off", "GOTOOLCHAIN": "local",
              "PATH": GOROOT_BIN + ":" + e.get("PATH", "")})
    e.pop("GOMAXPROCS", None)
    if extra:
        e.update(extra)
    return e

M_PKGS = "./internal/j5s/...,./internal/bcl/...,./internal/protosrc/...,./internal/source/...,./internal/structure/...,./lib/j5schema/...,./lib/j5reflect/...,./internal/codec/...,./lib/j5codec/...,./j5types/..."
Y_PKGS = "./lib/j5schema,./lib/j5reflect,./internal/codec,./lib/j5codec,./j5types/..."

PROPS = {
    "C14": dict(
        harness="sim/c14", cmd="zzverif_c14", race=False, history_check=True, crash_is_violation=True, crash_needs_phase="REPLAY-PHASE reference-ok",
        race_workers=(4, 10),  # these two workers run a -race build of the same harness (GOMAXPROCS 4): goroutines the compile path may start must not race
        rewrite=["-m", M_PKGS],
        extra_pkgs=[("sim/j5sgen", "internal/zzverif/j5sgen")],
        tiers={
            "quick": dict(budget=55, args=["-execs", "40", "-gen", "default"], selftest_runs=2),
            "thorough": dict(budget=1500, args=["-execs", "200", "-gen", "large"], selftest_runs=6),
        },
        level="exploration",
    ),
    "C10": dict(
        harness="sim/c10", cmd="zzverif_c10", race=True, minimise_mode=True, crash_is_violation=True,
        selftest_worker=("2", "3"),
        coldstart_procs=128,  # a worker that also draws workloads over types compiled from generated bundles
        rewrite=["-m", M_PKGS, "-y", Y_PKGS,
                 "-every", "lib/j5schema/schema_cache.go,lib/j5schema/schema_set.go,lib/j5reflect/reflect.go,internal/codec/codec.go",
                 "-fieldassign", "lib/j5schema",
                 "-entryexported", "lib/j5schema,internal/codec,lib/j5codec,lib/j5reflect",
                 "-entryrecv", "lib/j5reflect:Reflector"],
        extra_pkgs=[("sim/j5sgen", "internal/zzverif/j5sgen")],
        tiers={
            "quick": dict(budget=60, args=[], selftest_runs=2),
            "thorough": dict(budget=1500, args=["-deep", "-scheds", "16"], selftest_runs=6),
        },
        level="exploration",
    ),
}

_scratch = []

def _cleanup():
    if os.environ.get("VERIF_KEEP"):
        print("scratch kept:", _scratch)
        return
    for d in _scratch:
        shutil.rmtree(d, ignore_errors=True)

atexit.register(_cleanup)

def _sig(signum, frame):
    _cleanup()
    os._exit(2)

def trouble(msg):
    print("TROUBLE: " + msg, flush=True)
    sys.exit(2)

def run(cmd, **kw):
    return subprocess.run(cmd, **kw)

def ensure_simrewrite():
    out = os.path.join(VERIF, ".build", "simrewrite")
    src = os.path.join(VERIF, "tools", "simrewrite")
    newest = max(os.path.getmtime(os.path.join(src, f)) for f in os.listdir(src))
    if os.path.exists(out) and os.path.getmtime(out) >= newest:
        return out
    os.makedirs(os.path.dirname(out), exist_ok=True)
    r = run([GO, "build", "-o", out, "."], cwd=src, env=goenv(), capture_output=True, text=True)
    if r.returncode != 0:
        trouble("cannot build tools/simrewrite:\n" + r.stdout + r.stderr)
    return out

def copy_go_files(src, dst):
    os.makedirs(dst, exist_ok=True)
    for f in os.listdir(src):
        if f.endswith(".go"):
            shutil.copy(os.path.join(src, f), os.path.join(dst, f))

SENSITIVITY = {
    # property -> (description, [(file, old, new)]): a deliberate break applied to the SCRATCH copy only, to show
    # on every thorough run that the check can still fail. Skipped (and said so) if the anchor text is gone.
    "C10": ("remove the SchemaCache mutex again (re-opens defect 1 of DESIGN §10.1)",
            [("lib/j5schema/schema_cache.go", "\tsc.mu.Lock()\n\tdefer sc.mu.Unlock()\n", "")]),
    "C14": ("remove the key sort in walkOptionMap again (re-opens defect of DESIGN §10.1)",
            [("internal/j5s/protoprint/optionreflect/walk.go",
              "\tsort.Slice(entries, func(i, j int) bool {\n\t\treturn mapKeyLess(entries[i].key, entries[j].key)\n\t})\n",
              "\tvar _ = sort.Slice\n")]),
}

REAL_DEPS_EXPORT = '''package source

import (
	"github.com/pentops/j5/gen/j5/source/v1/source_j5pb"
	"github.com/pentops/j5/internal/zzverif/simrt"
	"google.golang.org/protobuf/types/descriptorpb"
)

// added to the scratch copy by /verif (never to /repo): exports the real DependencySet to the harness
func init() {
	simrt.RealDependencySet = func(files []*descriptorpb.FileDescriptorProto) (simrt.DependencySet, error) {
		img := &source_j5pb.SourceImage{File: files}
		for _, f := range files {
			img.SourceFilenames = append(img.SourceFilenames, f.GetName())
		}
		return combineSourceImages([]*source_j5pb.SourceImage{img})
	}
}
'''


def build_scratch(prop, verbose=True, mutate=None):
    """Copy /repo's working tree, instrument it, build the harness. Returns (binary, report, scratchdir, build_seconds)."""
    cfg = PROPS[prop]
    t0 = time.time()
    rewriter = ensure_simrewrite()
    base = os.environ.get("VERIF_TMP") or tempfile.gettempdir()
    os.makedirs(base, exist_ok=True)
    d = tempfile.mkdtemp(prefix="j5verif.%s." % prop, dir=base)
    _scratch.append(d)
    tree = os.path.join(d, "tree")
    r = run(["rsync", "-a", "--exclude", ".git", REPO + "/", tree + "/"], capture_output=True, text=True)
    if r.returncode != 0:
        trouble("rsync of %s failed: %s" % (REPO, r.stderr))
    if mutate:
        for rel, old, new in mutate:
            path = os.path.join(tree, rel)
            if not os.path.exists(path):
                return None
            src = open(path).read()
            if old not in src:
                return None
            open(path, "w").write(src.replace(old, new, 1))
    copy_go_files(os.path.join(VERIF, "sim", "simrt"), os.path.join(tree, "internal", "zzverif", "simrt"))
    for src, dst in cfg["extra_pkgs"]:
        copy_go_files(os.path.join(VERIF, src), os.path.join(tree, dst))
    copy_go_files(os.path.join(VERIF, cfg["harness"]), os.path.join(tree, "cmd", cfg["cmd"]))
    # the repository's own DependencySet (internal/source.imageFiles) is unexported: a small file added
    # to the scratch copy hands its constructor to the harness (only if it still has that shape)
    srcdeps = os.path.join(tree, "internal", "source", "deps.go")
    if os.path.exists(srcdeps) and "func combineSourceImages(images []*source_j5pb.SourceImage) (*imageFiles, error)" in open(srcdeps).read():
        with open(os.path.join(tree, "internal", "source", "zz_verif_export.go"), "w") as f:
            f.write(REAL_DEPS_EXPORT)
    report_path = os.path.join(d, "rewrite_report.json")
    r = run([rewriter, "-dir", tree, "-report", report_path] + cfg["rewrite"], cwd=tree, env=goenv(), capture_output=True, text=True)
    if r.returncode != 0:
        trouble("simrewrite failed on the current tree (does /repo build?):\n" + r.stdout[-4000:] + r.stderr[-4000:])
    report = json.load(open(report_path))
    # tell the harness what the rewriter could not model
    with open(os.path.join(tree, "cmd", cfg["cmd"], "zz_rewrite_report.go"), "w") as f:
        f.write("package main\n\n// written by the driver from the simrewrite report\nvar rewriteGoStmts = %d\nvar rewriteUnmodelled = %d\n" % (
            int(report.get("go_statements_in_pass_y") or 0), len(report.get("unmodelled") or [])))
    binary = os.path.join(d, cfg["cmd"])
    cmd = [GO, "build", "-trimpath", "-tags", "verif"]
    if cfg["race"]:
        cmd.append("-race")
    cmd += ["-o", binary, "./cmd/" + cfg["cmd"]]
    r = run(cmd, cwd=tree, env=goenv(), capture_output=True, text=True)
    if r.returncode != 0:
        trouble("build of the instrumented copy failed:\n" + r.stdout[-6000:] + r.stderr[-6000:])
    if cfg.get("race_workers") and not cfg["race"]:
        rcmd = [GO, "build", "-trimpath", "-tags", "verif", "-race", "-o", binary + ".race", "./cmd/" + cfg["cmd"]]
        r = run(rcmd, cwd=tree, env=goenv(), capture_output=True, text=True)
        if r.returncode != 0:
            trouble("race build of the instrumented copy failed:\n" + r.stdout[-6000:] + r.stderr[-6000:])
    return binary, report, d, time.time() - t0

def merge(a, b):
    """Recursively add counters of b into a."""
    for k, v in b.items():
        if isinstance(v, dict):
            a.setdefault(k, {})
            merge(a[k], v)
        elif isinstance(v, bool):
            a[k] = a.get(k, False) or v
        elif isinstance(v, (int, float)):
            a[k] = a.get(k, 0) + v
        elif k not in a:
            a[k] = v
    return a

def load_known_findings(prop):
    path = os.path.join(VERIF, "known_findings.txt")
    findings, fixed = [], []
    if not os.path.exists(path):
        return findings, fixed
    for line in open(path):
        line = line.strip()
        if not line or line.startswith("#"):
            continue
        kind, _, rest = line.partition(":")
        rest = rest.strip()
        if ("property=%s " % prop) not in rest + " ":
            continue
        key = ""
        for tok in rest.split():
            if tok.startswith("key="):
                key = tok[4:]
        desc = rest.split("::", 1)[1].strip() if "::" in rest else rest
        if kind == "finding":
            findings.append((key, desc))
        elif kind == "fixed":
            fixed.append((key, desc))
    return findings, fixed

def spawn_workers(binary, prop, tier, seed, nworkers, budget, extra_args, outdir, per_worker_env=None):
    procs = []
    for w in range(nworkers):
        out = os.path.join(outdir, "w%d.json" % w)
        env = goenv({"GOMAXPROCS": str([1, 4, 16][w % 3])})
        if per_worker_env:
            env.update(per_worker_env(w))
        wbin = binary
        if w in (PROPS[prop].get("race_workers") or ()) and os.path.exists(binary + ".race"):
            wbin = binary + ".race"
            env["GORACE"] = "log_path=%s halt_on_error=0 exitcode=0 history_size=2" % os.path.join(outdir, "race.w%d" % w)
            env["GOMAXPROCS"] = "4"
        cmd = [wbin, "-mode", "worker", "-seed", str(seed), "-worker", str(w), "-workers", str(nworkers),
               "-budget", str(budget), "-out", out] + extra_args
        errf = open(os.path.join(outdir, "w%d.stderr" % w), "w")
        procs.append((w, subprocess.Popen(cmd, env=env, stdout=subprocess.DEVNULL, stderr=errf, cwd=outdir), out, errf))
    return procs

def collect(procs, deadline):
    results, crashed = [], []
    for w, p, out, errf in procs:
        try:
            rc = p.wait(timeout=max(1, deadline - time.time()))
        except subprocess.TimeoutExpired:
            p.kill()
            p.wait()
            rc = -9
        errf.close()
        if rc == 0 and os.path.exists(out):
            results.append(json.load(open(out)))
        else:
            crashed.append((w, rc, errf.name))
    return results, crashed

def finding_key(v):
    return v.get("finding_key") or (v["violation"]["class"] + "/" + v["violation"].get("form", ""))

def do_selftest(binary, prop, seed, outdir, runs, extra_args):
    """Same seed, several fresh processes at different GOMAXPROCS: identical logs required."""
    cfg = PROPS[prop]
    logs = []
    procs = []
    for i in range(runs):
        out = os.path.join(outdir, "det%d.json" % i)
        env = goenv({"GOMAXPROCS": str([1, 4, 16][i % 3])})
        if PROPS[prop]["race"]:
            env["GORACE"] = "log_path=%s halt_on_error=0 exitcode=0 history_size=4" % os.path.join(outdir, "detrace%d" % i)
        cmd = [binary, "-mode", "worker", "-seed", str(seed), "-worker", cfg.get("selftest_worker", ("0", "1"))[0], "-workers", cfg.get("selftest_worker", ("0", "1"))[1], "-budget", "600",
               "-detlog", "-max-programs", os.environ.get("VERIF_SELFTEST_PROGRAMS", "6"), "-out", out] + extra_args
        procs.append((subprocess.Popen(cmd, env=env, stdout=subprocess.DEVNULL, stderr=subprocess.DEVNULL, cwd=outdir), out))
    for p, out in procs:
        rc = p.wait()
        if rc != 0 or not os.path.exists(out):
            return dict(ok=False, reason="selftest worker exited %s" % rc, runs=runs)
        logs.append(json.load(open(out)).get("det_log") or [])
    ok = all(l == logs[0] for l in logs) and len(logs[0]) > 0
    res = dict(ok=ok, processes=runs, executions_compared=len(logs[0]), gomaxprocs=[[1, 4, 16][i % 3] for i in range(runs)])
    if not ok:
        for l in logs[1:]:
            for a, b in zip(logs[0], l):
                if a != b:
                    res["first_divergence"] = [a, b]
                    break
    return res

# Two environments for the processes of the cross-process comparison: nothing of the run's environment
# (time zone, locale, home and temp directories, working directory, user, CPU count, debug switches) may
# show in descriptors or printed text. (Host name and process id differ between processes anyway or
# cannot be changed here.)
RUN_ENVS = {
    "shuffled": {"TZ": "UTC", "LANG": "C", "LC_ALL": "C", "HOME": "/nonexistent-home-a", "USER": "alpha", "LOGNAME": "alpha",
                 "GOMAXPROCS": "1", "NO_COLOR": "1", "CI": "true"},
    "reversed": {"TZ": "Pacific/Auckland", "LANG": "de_DE.UTF-8", "LC_ALL": "de_DE.UTF-8", "HOME": "/tmp", "USER": "beta", "LOGNAME": "beta",
                 "GOMAXPROCS": "7", "DEBUG": "1", "J5_DEBUG": "1", "BCL_VERBOSE": "true", "VERBOSE": "1", "LOG_LEVEL": "debug", "TERM": "dumb"},
}


def _refdigest(binary, seed, gen, order, outdir, tag, env_tag=None):
    out = os.path.join(outdir, "refdigest.%s.json" % tag)
    env = goenv()
    cwd = outdir
    if env_tag:
        env = dict(env)
        env.update(RUN_ENVS[env_tag])
        cwd = os.path.join(outdir, "cwd-" + env_tag, "deeper" if env_tag == "reversed" else "")
        os.makedirs(cwd, exist_ok=True)
        tmp = os.path.join(outdir, "tmp-" + env_tag)
        os.makedirs(tmp, exist_ok=True)
        env["TMPDIR"] = tmp
    r = run([binary, "-mode", "refdigest", "-seed", str(seed), "-gen", gen, "-indices", ",".join(map(str, order)), "-out", out],
            env=env, capture_output=True, text=True, cwd=cwd)
    if r.returncode != 0 or not os.path.exists(out):
        _refdigest.last_stderr = r.stderr[-4000:]
        return None
    return json.load(open(out)).get("ref_digests") or {}

def history_check(binary, seed, tier, tcfg, results, outdir):
    """C14, 'independent of what else was compiled earlier in the same process': the reference outputs of a
    program must be the same in every process, whatever that process compiled before. Compares the digests
    recorded by the workers (each saw its own stride of programs) with two extra processes that compile a
    sample of the same programs in a seeded order and in the reverse order."""
    import random
    gen = "default"
    a = tcfg["args"]
    if "-gen" in a:
        gen = a[a.index("-gen") + 1]
    seen = {}  # idx -> list of (digest, description, order-prefix)
    for r in results:
        w = r.get("worker")
        idxs = sorted(int(k) for k in (r.get("ref_digests") or {}))
        for pos, i in enumerate(idxs):
            seen.setdefault(i, []).append((r["ref_digests"][str(i)], "worker %d" % w, idxs[:pos + 1]))
    # every hand-written bundle (the lowest indices: each exists for one special shape, and the workers'
    # strides put them all into different processes) plus a random sample of the generated ones
    special = [i for i in sorted(seen) if i < 24]
    sample = [i for i in sorted(seen) if i >= 24]
    rnd = random.Random(seed)
    rnd.shuffle(sample)
    sample = special + sample[: (24 if tier == "quick" else 140)]
    rnd.shuffle(sample)
    orders = {"shuffled": list(sample), "reversed": list(reversed(sample))}
    for tag, order in orders.items():
        d = _refdigest(binary, seed, gen, order, outdir, tag, env_tag=tag)
        if d is None:
            err = getattr(_refdigest, "last_stderr", "")
            if "fatal error: concurrent map" in err:
                # the Go runtime caught two goroutines of the code under test in one map while this process
                # compiled the sample: the process under test crashed. Replay = the same list of programs,
                # repeated (the crash needs a physical overlap).
                first = [l for l in err.splitlines() if l.startswith("fatal error:")][:1]
                return [dict(property="C14", master_seed=seed, program_index=order[-1], exec_index=-1, program=None, minimised=False,
                             finding_key="process_crash",
                             violation=dict(**{"class": "process_crash"}, form="", op_index=-1, op="",
                                            detail="a process compiling programs %s one after the other died: %s\n%s" % (order, first[0] if first else "fatal error", err[-2500:])),
                             history_case=dict(index=order[-1], order=order, gen=gen, fresh_digest="", history_digest="", crash=True))], dict(compared=0, crashed=True)
            trouble("history check: refdigest process failed")
        for pos, i in enumerate(order):
            seen[i].append((d.get(str(i)), "process compiling the sample in %s order (environment %s)" % (tag, tag), order[:pos + 1], tag))
    viol = []
    compared = 0
    for i in sorted(seen):
        obs = seen[i]
        compared += len(obs)
        if len({o[0] for o in obs}) <= 1:
            continue
        fresh = (_refdigest(binary, seed, gen, [i], outdir, "fresh%d" % i) or {}).get(str(i))
        bad = [o for o in obs if o[0] != fresh]
        if not bad:
            continue
        # the environment rather than the history? the program alone, in that environment
        env_hit = None
        for o in bad:
            if len(o) > 3:
                de = (_refdigest(binary, seed, gen, [i], outdir, "env%d" % i, env_tag=o[3]) or {}).get(str(i))
                if de is not None and de != fresh:
                    env_hit = (o[3], de)
                    break
        if env_hit:
            viol.append(dict(property="C14", master_seed=seed, program_index=i, exec_index=-1, program=None, minimised=True,
                             finding_key="environment_dependence",
                             violation=dict(**{"class": "environment_dependence"}, form="", op_index=-1, op="",
                                            detail="reference outputs of program %d, compiled alone in a fresh process: digest %s in the default environment, %s with %s" % (i, fresh, env_hit[1], json.dumps(RUN_ENVS[env_hit[0]], sort_keys=True))),
                             history_case=dict(index=i, order=[i], gen=gen, fresh_digest=fresh, history_digest=env_hit[1], env=RUN_ENVS[env_hit[0]])))
            continue
        dig, desc, prefix = min(bad, key=lambda o: len(o[2]))[:3]
        # minimise the list of earlier programs (fresh process per candidate)
        pre = prefix[:-1]
        def differs(cand):
            d = _refdigest(binary, seed, gen, cand + [i], outdir, "min")
            return d is not None and d.get(str(i)) != fresh
        if not differs(pre):
            pre = prefix[:-1]  # not reproducible by order alone; keep as recorded
        else:
            changed = True
            while changed and len(pre) > 1:
                changed = False
                for k in range(len(pre)):
                    cand = pre[:k] + pre[k + 1:]
                    if differs(cand):
                        pre = cand
                        changed = True
                        break
        viol.append(dict(property="C14", master_seed=seed, program_index=i, exec_index=-1, program=None, minimised=True,
                         finding_key="process_history_dependence",
                         violation=dict(**{"class": "process_history_dependence"}, form="", op_index=-1, op="",
                                        detail="reference outputs of program %d: digest %s in a fresh process, %s in %s (after programs %s)" % (i, fresh, dig, desc, pre)),
                         history_case=dict(index=i, order=pre + [i], gen=gen, fresh_digest=fresh, history_digest=dig)))
        break  # one report is enough
    info = dict(programs_compared=len(seen), digests_compared=compared, extra_processes=2, sample=len(sample))
    return viol, info

def sensitivity(prop, seed, extra_args):
    """Break the property on purpose in a scratch copy and require the check to notice."""
    desc, edits = SENSITIVITY[prop]
    t0 = time.time()
    built = build_scratch(prop, mutate=edits)
    if built is None:
        return dict(mutation=desc, applied=False, note="anchor text not found in the current tree; self-check skipped")
    binary, report, d, build_s = built
    outdir = os.path.join(d, "out")
    os.makedirs(outdir)
    per_env = None
    if PROPS[prop]["race"]:
        per_env = lambda w: {"GORACE": "log_path=%s halt_on_error=0 exitcode=0 history_size=4" % os.path.join(outdir, "race.w%d" % w)}
    procs = spawn_workers(binary, prop, "quick", seed, 8, 20, [a for a in extra_args if a != "-deep"], outdir, per_env)
    results, crashed = collect(procs, time.time() + 300)
    keys = sorted({finding_key(v) for r in results for v in (r.get("violations") or [])})
    shutil.rmtree(d, ignore_errors=True)
    return dict(mutation=desc, applied=True, detected=bool(keys), violation_keys=keys[:8], workers=8, budget_s=20,
                seconds=round(time.time() - t0, 1))

def evidence_dir():
    # experiments against patched copies of the repository must not overwrite the committed evidence
    return os.environ.get("VERIF_EVIDENCE_DIR") or os.path.join(VERIF, "evidence")

def replay_dir():
    return os.environ.get("VERIF_REPLAY_DIR") or os.path.join(VERIF, "replays")

def write_evidence(prop, tier, seed, level, coverage, assumptions, wall, nviol):
    os.makedirs(evidence_dir(), exist_ok=True)
    ev = dict(property_id=prop, tier=tier, seed=seed, level=level, coverage=coverage, assumptions=assumptions,
              wall_s=round(wall, 2), violations=nviol)
    tmp = os.path.join(evidence_dir(), prop + ".json.tmp")
    json.dump(ev, open(tmp, "w"), indent=1, sort_keys=False)
    os.replace(tmp, os.path.join(evidence_dir(), prop + ".json"))

def check(prop, tier):
    if prop not in PROPS:
        trouble("unknown property %s (claimed: %s)" % (prop, ", ".join(PROPS)))
    cfg = PROPS[prop]
    tcfg = cfg["tiers"][tier]
    t0 = time.time()
    seed = int(os.environ.get("VERIF_SEED", "1"))
    nworkers = int(os.environ.get("VERIF_WORKERS", "16"))
    budget = float(os.environ.get("VERIF_BUDGET", tcfg["budget"]))
    print("check %s tier=%s VERIF_SEED=%d workers=%d budget=%gs" % (prop, tier, seed, nworkers, budget), flush=True)
    binary, report, d, build_s = build_scratch(prop)
    print("built instrumented copy in %.1fs: %s" % (build_s, json.dumps(report["counts"], sort_keys=True)), flush=True)
    outdir = os.path.join(d, "out")
    os.makedirs(outdir)

    per_env = None
    if cfg["race"]:
        per_env = lambda w: {"GORACE": "log_path=%s halt_on_error=0 exitcode=0 history_size=4" % os.path.join(outdir, "race.w%d" % w)}
    procs = spawn_workers(binary, prop, tier, seed, nworkers, budget, tcfg["args"], outdir, per_env)
    # determinism self-test slice runs alongside
    st_dir = os.path.join(d, "selftest")
    os.makedirs(st_dir)
    results, crashed = collect(procs, time.time() + budget * 3 + 600)
    if cfg.get("coldstart_procs"):
        # cold-start slice: many short-lived processes whose FIRST contact with the code under test is a
        # simulated concurrent run (what is initialised once per process is initialised under contention)
        cs_results = []
        n_cs = cfg["coldstart_procs"] * (4 if tier == "thorough" else 1)
        for base in range(0, n_cs, 16):
            cprocs = []
            for k in range(base, min(n_cs, base + 16)):
                out = os.path.join(outdir, "cs%d.json" % k)
                env = goenv({"GOMAXPROCS": str([1, 4, 16][k % 3]),
                             "GORACE": "log_path=%s halt_on_error=0 exitcode=0 history_size=4" % os.path.join(outdir, "race.cs%d" % k)})
                cmd = [binary, "-mode", "worker", "-seed", str(seed * 1000003 + 7919 * (k // 32 + 1)), "-worker", "0", "-workers", "1",
                       "-budget", "20", "-max-programs", "1", "-coldstart", "-coldstart-k", str(k), "-out", out] + [a for a in tcfg["args"] if a != "-deep"]
                errf = open(os.path.join(outdir, "cs%d.stderr" % k), "w")
                cprocs.append((1000 + k, subprocess.Popen(cmd, env=env, stdout=subprocess.DEVNULL, stderr=errf, cwd=outdir), out, errf))
            r2, c2 = collect(cprocs, time.time() + 180)
            cs_results += r2
            crashed += c2
        for r in cs_results:
            (r.setdefault("stats", {}).setdefault("probes", {}))["cold_start_processes"] = 1
        results += cs_results
    if crashed and cfg.get("crash_needs_phase"):
        # A program whose REFERENCE execution kills the process (e.g. runaway recursion in the compiler) says
        # nothing about this property; skip it and run that worker's stride again (at most 3 times).
        skips = {}
        for attempt in range(3):
            redo = []
            for w, rc, errname in crashed:
                marker = os.path.join(outdir, "w%d.json.current" % w)
                try:
                    m = json.load(open(marker))
                except Exception:
                    continue
                if m.get("exec_index") == -1 and rc != 3:
                    skips.setdefault(w, []).append(str(m.get("program_index")))
                    redo.append(w)
            if not redo:
                break
            crashed = [c for c in crashed if c[0] not in redo]
            procs2 = []
            for w in redo:
                out = os.path.join(outdir, "w%d.json" % w)
                for f in (out, out + ".current"):
                    if os.path.exists(f):
                        os.remove(f)
                env = goenv({"GOMAXPROCS": str([1, 4, 16][w % 3])})
                cmd = [binary, "-mode", "worker", "-seed", str(seed), "-worker", str(w), "-workers", str(nworkers),
                       "-budget", str(budget), "-out", out, "-skip", ",".join(skips[w])] + tcfg["args"]
                errf = open(os.path.join(outdir, "w%d.stderr" % w), "w")
                procs2.append((w, subprocess.Popen(cmd, env=env, stdout=subprocess.DEVNULL, stderr=errf, cwd=outdir), out, errf))
            r2, c2 = collect(procs2, time.time() + budget * 3 + 600)
            results += r2
            crashed += c2
        if skips:
            print("note: skipped programs whose reference execution crashes the process: %s" % json.dumps(skips), flush=True)
    selftest = do_selftest(binary, prop, seed, st_dir, tcfg["selftest_runs"], [a for a in tcfg["args"] if a != "-deep"])
    crash_viol = []
    if crashed and cfg.get("crash_is_violation"):
        # A worker died. The harness writes the run it is about to start to <out>.current; if replaying that
        # run in a fresh process kills the process again with a Go fatal error or an unrecovered panic, the
        # code under test crashed the process under that schedule: a violation ("runtime crashes"), not trouble.
        still = []
        for w, rc, errname in crashed:
            marker = os.path.join(outdir, "w%d.json.current" % w)
            tail = open(errname).read()[-6000:]
            if len(crash_viol) >= 2:
                continue  # the same crash in every worker: two replay files are enough
            if rc != 3 and os.path.exists(marker) and ("fatal error:" in tail or "\npanic: " in tail or tail.startswith("panic: ")):
                os.makedirs(replay_dir(), exist_ok=True)
                path = os.path.join(replay_dir(), "%s-crash-w%d-seed%d.json" % (prop, w, seed))
                v = json.load(open(marker))
                v["violation"]["detail"] = "the worker process died while executing this run:\n" + tail[-3000:]
                json.dump(v, open(path, "w"), indent=1)
                env = goenv({"GORACE": "log_path=%s halt_on_error=0 exitcode=0 history_size=4" % os.path.join(outdir, "race.crashreplay")})
                r = run([binary, "-mode", "replay", "-file", path], env=env, capture_output=True, text=True, cwd=outdir)
                need = cfg.get("crash_needs_phase")
                if r.returncode in (0, 1) and "fatal error: concurrent map" in tail:
                    # The Go runtime itself caught two goroutines of the code under test in one map: that
                    # only happens when they physically overlap, so one replay proves little. Repeat the
                    # run (the replay file fixes everything but the Go scheduler) up to 48 times, 16 at a time.
                    hits = 0
                    for batch in range(3):
                        ps = [subprocess.Popen([binary, "-mode", "replay", "-file", path], env=dict(env, GOMAXPROCS="16"), stdout=subprocess.PIPE, stderr=subprocess.PIPE, text=True, cwd=outdir) for _ in range(16)]
                        for pp in ps:
                            try:
                                so, se = pp.communicate(timeout=300)
                            except subprocess.TimeoutExpired:
                                pp.kill()
                                continue
                            if pp.returncode not in (0, 1) and "fatal error:" in se and (not need or need in so):
                                hits += 1
                                r = subprocess.CompletedProcess(pp.args, pp.returncode, so, se)
                        if hits:
                            break
                    if hits:
                        v["violation"]["detail"] += "\n(the crash needs two goroutines of the code under test to overlap physically: reproduced in %d of %d repetitions of this run)" % (hits, 16 * (batch + 1))
                        json.dump(v, open(path, "w"), indent=1)
                if need and need not in r.stdout:
                    # the crash also happens in the reference execution: not schedule/order dependent, so
                    # not this property's business; the worker's death stays machinery trouble
                    still.append((w, rc, errname))
                    continue
                if r.returncode not in (0, 1) and ("fatal error:" in r.stderr or "panic: " in r.stderr):
                    first = [l for l in r.stderr.splitlines() if l.startswith("fatal error:") or l.startswith("panic:")][:1]
                    crash_viol.append(("process_crash", path, v, "REPLAY: the process under test dies again when this run is replayed: %s" % (first[0] if first else "crash")))
                    continue
            still.append((w, rc, errname))
        crashed = still
    if crashed and any(r.get("violations") for r in results):
        # other workers did report violations: those are verified and reported below; the dead
        # workers are mentioned but do not turn the outcome into "trouble"
        for w, rc, errname in crashed:
            tail = open(errname).read()
            first = [l for l in tail.splitlines() if l.startswith("fatal error:") or l.startswith("panic:")][:1]
            print("note: worker %d died (exit %s%s) and its crash did not reproduce on replay" % (w, rc, ": " + first[0] if first else ""), flush=True)
        crashed = []
    if crashed:
        msgs = []
        for w, rc, errname in crashed:
            tail = open(errname).read()[-3000:]
            msgs.append("worker %d exited with %s:\n%s" % (w, rc, tail))
        # a crash of the process under test is handled by the harness itself (it records the run before
        # starting it); reaching here means the harness could not report: machinery trouble.
        trouble("workers did not finish cleanly:\n" + "\n".join(msgs))
    if not results and not crash_viol:
        trouble("no worker results")

    stats = {}
    sigs = set()
    violations = []
    samples = []
    for r in results:
        merge(stats, r.get("stats") or {})
        sigs.update(r.get("nontrivial_sigs") or [])
        violations += r.get("violations") or []
        samples += (r.get("samples") or [])[:1]
    site_bits = [0] * 64
    for r in results:
        for k, b in enumerate(r.get("yield_site_bits") or []):
            site_bits[k] |= b
    yield_sites_hit = sum(bin(b).count("1") for b in site_bits)
    dyn_native = int((stats.get("probes") or {}).get("dynamic_native_fallback", 0))
    nworkers_seen = len(results)
    wall = time.time() - t0
    run_wall = max((r.get("wall_s", 0) for r in results), default=0)

    history_info = None
    if cfg.get("history_check"):
        hv, history_info = history_check(binary, seed, tier, tcfg, results, outdir)
        violations += hv

    sens = None
    if tier == "thorough" or os.environ.get("VERIF_SENSITIVITY"):
        sens = sensitivity(prop, seed, tcfg["args"])

    findings, fixed = load_known_findings(prop)
    known = dict(findings)
    # one report per finding key: keep the smallest replay
    by_key = {}
    for v in violations:
        k = finding_key(v)
        if k not in by_key or len(json.dumps(v)) < len(json.dumps(by_key[k])):
            by_key[k] = v
    new_viol = []
    os.makedirs(replay_dir(), exist_ok=True)
    observed_known = set()
    unreproduced = []
    for k, v in sorted(by_key.items()):
        if k in known:
            observed_known.add(k)
            continue
        h = hashlib.sha256(k.encode()).hexdigest()[:10]
        path = os.path.join(replay_dir(), "%s-%s-seed%d.json" % (prop, h, seed))
        json.dump(v, open(path, "w"), indent=1)
        if cfg.get("minimise_mode") and not v.get("minimised") and len(new_viol) + len(unreproduced) < 3:
            menv = goenv()
            r = run([binary, "-mode", "minimise", "-file", path, "-out", path + ".min"], env=menv, capture_output=True, text=True, cwd=outdir)
            if r.returncode == 0 and os.path.exists(path + ".min"):
                os.replace(path + ".min", path)
                v = json.load(open(path))
        # verify in a fresh process before reporting
        env = goenv()
        if cfg["race"]:
            env["GORACE"] = "log_path=%s halt_on_error=0 exitcode=0 history_size=4" % os.path.join(outdir, "race.replay")
        rbin = binary
        if not cfg["race"] and (v.get("violation") or {}).get("class") == "data_race" and os.path.exists(binary + ".race"):
            rbin = binary + ".race"
            env["GORACE"] = "log_path=%s halt_on_error=0 exitcode=0 history_size=4" % os.path.join(outdir, "race.replay")
            env["GOMAXPROCS"] = "4"
        r = run([rbin, "-mode", "replay", "-file", path], env=env, capture_output=True, text=True, cwd=outdir)
        if r.returncode != 1 and v.get("native_fallback") and (v.get("violation") or {}).get("class") == "deadlock":
            # "nothing finished within 15 s" under real scheduling, and 25 repetitions in a fresh process all
            # finished: a slow machine is as good an explanation as a lost wake-up. Not a verdict.
            unreproduced.append((k, path, r.returncode, (r.stdout + r.stderr)[-2000:]))
            continue
        if r.returncode != 1 and v.get("native_fallback"):
            # observed by a worker under real goroutine scheduling (native fallback): the observation itself
            # (race report / wrong result / goroutines blocked for 15 s) is the evidence; replay is statistical
            new_viol.append((k, path, v, "REPLAY: not reproduced in this attempt (native fallback: schedules are not replayable); observed by the worker:\n  "
                             + (v["violation"].get("detail") or "")[:1500].replace("\n", "\n  ")))
            continue
        if r.returncode == 1:
            new_viol.append((k, path, v, "\n".join(l for l in r.stdout.strip().splitlines() if not l.startswith("REPLAY-PHASE"))))
        else:
            unreproduced.append((k, path, r.returncode, (r.stdout + r.stderr)[-2000:]))

    new_viol += crash_viol
    coverage = dict(
        evaluations=int(stats.get("executions", 0)),
        distinct_nontrivial=len(sigs),
        rule=stats.pop("rule", None) or RULES[prop],
        samples=samples[:4] or [dict(note="no sample recorded")],
        runs_per_hour=int(stats.get("executions", 0) / max(run_wall, 0.001) * 3600),
        master_seed=seed,
        run_index_ranges=[[r.get("first_index"), r.get("last_index")] for r in results][:16],
        workers=nworkers,
        simulated_time="n/a - no clock or timer exists on the code paths of this property (DESIGN.md §1); progress is counted in scheduler steps / operations",
        fault_kinds=stats.get("faults", {}),
        probes=stats.get("probes", {}),
        stats={k: v for k, v in stats.items() if k not in ("faults", "probes")},
        instrumentation=report["counts"],
        yield_sites_executed_approx=(yield_sites_hit if cfg["race"] else None),
        yield_sites_inserted=sum(v for k, v in report["counts"].items() if k.startswith("yield_") or k in ("lock", "unlock", "once")),
        order_sites_never_permuted=(sorted(x["site"] + " (" + x.get("func", "") + ")" for x in report.get("sites", [])
                                            if not x["kind"].startswith("yield") and x["kind"] not in ("lock", "unlock", "once")
                                            and x["site"] not in (stats.get("site_permuted") or {})) if not cfg["race"] else None),
        uncontrolled_sites=report.get("uncontrolled") or [],
        unmodelled_sync=report.get("unmodelled") or [],
        components=COMPONENTS[prop],
        scheduler_mode=(None if not cfg["race"] else ("deterministic (seeded baton passing)" if not (report.get("unmodelled") or []) and not dyn_native else
                        "DYNAMIC NATIVE FALLBACK in %d of %d workers: a task went to sleep in a blocking primitive the simulator does not model (inside a dependency, say) while every other task was parked; from that workload on those workers ran tasks as ordinary goroutines (race detector, sequential-reference oracle, 15 s deadlock timeout still apply; schedules not chosen or replayable)" % (dyn_native, nworkers_seen) if not (report.get("unmodelled") or []) else
                        "NATIVE FALLBACK: the instrumented packages use synchronisation the simulator does not model (see unmodelled_sync); tasks ran as ordinary goroutines - race detector, sequential-reference oracle and a 15 s deadlock timeout still apply, schedules are not chosen or replayable")),
        determinism_selftest=selftest,
        cross_process_history_check=history_info,
        sensitivity_selfcheck=sens,
        build_s=round(build_s, 1),
        known_findings_listed=[k for k, _ in findings],
        fixed_findings_listed=[k for k, _ in fixed],
    )
    write_evidence(prop, tier, seed, cfg["level"], coverage, ASSUMPTIONS[prop], wall, len(new_viol))

    for k, desc in findings:
        print("KNOWN-FINDING: property=%s %s %s%s" % (prop, k, desc, "" if k in observed_known else " (not exercised in this run)"), flush=True)
    print("explored: %d executions, %d distinct non-trivial, %.0f/h; faults=%s%s" % (
        coverage["evaluations"], coverage["distinct_nontrivial"], coverage["runs_per_hour"], json.dumps(coverage["fault_kinds"], sort_keys=True),
        "" if not cfg["race"] else ("; scheduler=" + ("deterministic" if not (report.get("unmodelled") or []) and not dyn_native else "NATIVE-FALLBACK"))), flush=True)
    if new_viol:
        for k, path, v, out in new_viol:
            print(out)
            print("VIOLATION property=%s replay=%s" % (prop, path), flush=True)
        if not selftest.get("ok"):
            print("note: the same-seed processes of the determinism self-test also diverged (%s) - expected when the code under test is itself nondeterministic" % json.dumps(selftest.get("first_divergence")))
        return 1
    if not selftest.get("ok"):
        trouble("determinism self-test failed: %s" % json.dumps(selftest))
    if sens and sens.get("applied") and not sens.get("detected"):
        trouble("sensitivity self-check: the deliberate break (%s) was NOT detected" % sens["mutation"])
    anomalies = int((stats.get("probes") or {}).get("sequential_anomaly_not_reproduced_in_fresh_process", 0))
    if anomalies:
        trouble("%d sequential anomalies (a call returned something else than when run alone) were observed inside worker processes "
                "but none reproduced from its own workload in a fresh process; the property cannot be claimed to have held" % anomalies)
    if unreproduced:
        for k, path, rc, out in unreproduced:
            print("TROUBLE: violation %s did not reproduce on replay (exit %s); file kept at %s\n%s" % (k, rc, path, out))
        sys.exit(2)
    if coverage["evaluations"] == 0 or coverage["distinct_nontrivial"] < 2:
        trouble("nothing explored (evaluations=%d, distinct=%d)" % (coverage["evaluations"], coverage["distinct_nontrivial"]))
    print("OK property=%s held on everything explored (%.0fs)" % (prop, wall), flush=True)
    return 0

def replay(path):
    v = json.load(open(path))
    prop = v.get("property")
    if prop not in PROPS:
        trouble("replay file names unknown property %r" % prop)
    binary, report, d, build_s = build_scratch(prop)
    env = goenv()
    outdir = os.path.join(d, "out")
    os.makedirs(outdir)
    if PROPS[prop]["race"]:
        env["GORACE"] = "log_path=%s halt_on_error=0 exitcode=0 history_size=4" % os.path.join(outdir, "race.replay")
    elif (v.get("violation") or {}).get("class") == "data_race" and os.path.exists(binary + ".race"):
        binary = binary + ".race"
        env["GORACE"] = "log_path=%s halt_on_error=0 exitcode=0 history_size=4" % os.path.join(outdir, "race.replay")
        env["GOMAXPROCS"] = "4"
    r = run([binary, "-mode", "replay", "-file", os.path.abspath(path)], env=env, capture_output=True, text=True, cwd=outdir)
    sys.stdout.write(r.stdout)
    sys.stderr.write(r.stderr[-3000:])
    if r.returncode == 1:
        print("VIOLATION property=%s replay=%s" % (prop, os.path.abspath(path)))
        return 1
    if r.returncode == 0:
        print("replay: the recorded violation does not occur on the current tree")
        return 0
    need = PROPS[prop].get("crash_needs_phase")
    if PROPS[prop].get("crash_is_violation") and ("fatal error:" in r.stderr or "panic: " in r.stderr) and (not need or need in r.stdout):
        print("REPLAY: the process under test died while replaying this run (runtime crash)")
        print("VIOLATION property=%s replay=%s" % (prop, os.path.abspath(path)))
        return 1
    trouble("replay could not be followed (exit %d)" % r.returncode)

def selftest(prop):
    binary, report, d, build_s = build_scratch(prop)
    st = os.path.join(d, "selftest")
    os.makedirs(st)
    os.environ.setdefault("VERIF_SELFTEST_PROGRAMS", "40")
    res = do_selftest(binary, prop, int(os.environ.get("VERIF_SEED", "1")), st, int(os.environ.get("VERIF_SELFTEST_PROCS", "9")), [])
    print(json.dumps(res, indent=1))
    return 0 if res.get("ok") else 2

RULES = {
    "C14": "one evaluation = one simulated execution: a seeded history of 3-15 operations (CompilePackage / LoadLocalPackage / LintAll / LintFile / failing compile / transient read error, on fresh or reused PackageSets) over one program (hand-written bundle or seeded j5s bundle), with a seeded order at every Go-map / protobuf-Range iteration site in /repo and at every package/file/dependency listing; after every CompilePackage the descriptors (deterministic wire bytes) and printed .proto text of every returned file - or the fact that the package does not compile - are compared with the reference execution of the same program (canonical listings, identity orders, fresh PackageSet per package); returned files are re-examined in another order, twice, and at the end of the history. Two of the sixteen workers run under the race detector. After the workers: reference digests compared across processes, histories and environments. Non-trivial = at least one non-identity order was applied to a collection of >=2 elements, or a PackageSet was reused. Distinct = distinct hash of (program digest, history, applied orders).",
    "C10": "one evaluation = one simulated run: 2-12 tasks (real goroutines, exactly one running at a time, chosen by a seeded scheduler at AST-inserted yield points; the hand-off is invisible to the race detector; goroutines, timers, condition variables and WaitGroups of the code under test are tasks and waits of the same scheduler) each performing 1-5 codec/reflector operations on one shared codec (or two side by side), under a simulated clock. Oracles: Go race detector report, panic, deadlock, no-progress, and every call's outcome must be what the call returns alone on a fresh instance (any way it fails alone, if it fails). The cold-start slice (short-lived processes whose first contact with the code under test is such a run) is counted in the same way. Non-trivial = >=2 tasks and at least one context switch while some task was inside the schema build path. Distinct = distinct schedule signature (hash of the global (task, yield-site) event sequence and workload).",
}
COMPONENTS = {
    "C14": dict(real_instrumented=["internal/j5s/protobuild", "internal/j5s/j5convert", "internal/j5s/sourcewalk", "internal/j5s/j5parse", "internal/j5s/protoprint", "internal/j5s/protoprint/optionreflect", "internal/bcl/**", "internal/protosrc", "lib/j5schema", "lib/j5reflect", "internal/codec",
                                   "internal/j5s/protobuild.fileReader over an in-memory fs.FS (20 % of executions)", "internal/source.imageFiles, the repository's DependencySet, its map ranges seeded (30 % of executions with dependencies)"],
                real_uninstrumented=["github.com/bufbuild/protocompile (linker, options, parser)", "google.golang.org/protobuf", "github.com/iancoleman/strcase"],
                simulated=["LocalFileSource (in-memory, seeded listing order, transient read errors) in the other 80 %", "DependencySet (in-memory descriptors, seeded listing order) in the other 70 %"],
                race_detector="workers 4 and 10 of 16 run a -race build of the same harness (goroutines started by the compile path)"),
    "C10": dict(real_instrumented=["lib/j5codec", "internal/codec", "lib/j5reflect", "lib/j5schema", "j5types/*"],
                real_uninstrumented=["google.golang.org/protobuf", "encoding/json", "generated *.pb.go"],
                simulated=["goroutine scheduler (seeded baton passing over real goroutines)"]),
}
ASSUMPTIONS = {
    "C14": ["exploration samples programs, histories and orders; it enumerates nothing exhaustively",
            "Go map iteration is modelled at the level of the language specification (any order is legal), protobuf containers at the level of their implementation (dynamicpb: all fields from a Go map; generated messages: only extension fields)",
            "iteration inside uninstrumented dependencies (protocompile, protobuf-go) is not seeded; variation from there is caught only by the repeated-reference comparison",
            "the Go toolchain (go1.26.8) and the race-free single-goroutine execution of the compile path"],
    "C10": ["exploration samples schedules; it enumerates nothing exhaustively",
            "preemption happens only at inserted yield points (statement boundaries touching shared state); the race oracle does not depend on yield placement",
            "dependencies (protobuf-go, encoding/json) run uninstrumented and their internal locking is trusted",
            "the Go race detector's happens-before analysis is sound for the synchronisation primitives used (sync.Mutex/RWMutex/Once/atomic)"],
}

def main(argv):
    signal.signal(signal.SIGTERM, _sig)
    signal.signal(signal.SIGINT, _sig)
    if len(argv) >= 2 and argv[0] == "--replay":
        return replay(argv[1])
    if len(argv) >= 2 and argv[0] == "--selftest":
        return selftest(argv[1])
    if len(argv) >= 2 and argv[0] == "--sensitivity":
        r = sensitivity(argv[1], int(os.environ.get("VERIF_SEED", "1")), [])
        print(json.dumps(r, indent=1))
        return 0 if (not r.get("applied") or r.get("detected")) else 2
    if len(argv) >= 1 and argv[0] == "--build-only":
        for p in argv[1:] or list(PROPS):
            b, rep, d, s = build_scratch(p)
            print("built %s in %.1fs" % (p, s))
        return 0
    if len(argv) < 1:
        print(__doc__)
        return 2
    prop = argv[0]
    tier = argv[1] if len(argv) > 1 else os.environ.get("VERIF_TIER", "quick")
    if tier not in ("quick", "thorough"):
        trouble("tier must be quick or thorough")
    return check(prop, tier)
