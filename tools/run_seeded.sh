#!/bin/bash
# Runs the quick check of the matching property against every seeded change (or the ids given),
# each in its own scratch worktree of /repo HEAD (so /repo itself is never touched), and prints a table.
# usage: tools/run_seeded.sh [budget] [id ...]
B=${1:-30}; shift
IDS=${@:-$(ls /verif/seeded)}
mkdir -p /tmp/mine
# work from a private copy of /verif so that edits made while this runs cannot disturb it
SNAP=$(mktemp -d /tmp/mine/verifsnap.XXXX)
rsync -a --exclude .git --exclude replays /verif/ $SNAP/
trap 'rm -rf $SNAP' EXIT
for id in $IDS; do
  prop=$(python3 -c "import json;print(json.load(open('/verif/seeded/$id/meta.json'))['property'])")
  WT=$(mktemp -d /tmp/mine/seedwt.XXXX)
  git -C /repo worktree add -q --detach $WT/wt HEAD || { echo "$id worktree-failed"; continue; }
  PATCH=/verif/seeded/$id/patch.diff
  [ -f /verif/seeded/$id/patch.rebased.diff ] && PATCH=/verif/seeded/$id/patch.rebased.diff
  if ! git -C $WT/wt apply $PATCH 2>/dev/null && ! git -C $WT/wt apply --3way $PATCH >/dev/null 2>&1; then
    echo "$id does-not-apply-to-HEAD (see meta.json: base_commit / superseded)"; git -C /repo worktree remove --force $WT/wt; rm -rf $WT; continue; fi
  out=$(cd $SNAP && VERIF_REPO=$WT/wt VERIF_TMP=/tmp/mine VERIF_EVIDENCE_DIR=/tmp/mine/evidence VERIF_REPLAY_DIR=/tmp/mine/replays.$$ VERIF_BUDGET=$B bin/check $prop quick 2>&1); rc=$?
  keys=$(echo "$out" | grep -oE "^REPLAY: violation class=[a-z_]+( key=[^ ]+| form=[a-z_]+)?" | sed 's/REPLAY: violation //' | sort | uniq -c | sort -rn | head -3 | tr '\n' ';')
  echo "$id prop=$prop exit=$rc $keys"
  git -C /repo worktree remove --force $WT/wt; rm -rf $WT
done
