#!/bin/bash
# usage: validate_seeded.sh <change-dir> <pkgdir> <TestName>
# Confirms in a scratch worktree: patch applies, builds, existing suite passes with it,
# demo fails with it and passes without it. Prints a one-line verdict.
set -u
D=$1; PKG=$2; T=$3
export GOFLAGS=-mod=mod GOPROXY=off
WT=$(mktemp -d /tmp/mine/valwt.XXXX)
git -C /repo worktree add -q --detach $WT/wt ${BASE:-HEAD} || exit 2
cd $WT/wt
res=""
git apply $D/patch.diff || { res="$res patch-does-not-apply"; }
go build ./... >/dev/null 2>$WT/build.err || res="$res build-fails"
go test -vet=off -count=1 -timeout 20m ./... >$WT/suite.out 2>&1 || res="$res suite-fails"
cp $D/demo_test.go $PKG/zz_demo_test.go
go test -vet=off -count=1 -timeout 10m -run "$T" ./$PKG/ >$WT/demo_with.out 2>&1 && res="$res demo-passes-WITH-change"
git checkout -q -- . 
go test -vet=off -count=1 -timeout 10m -run "$T" ./$PKG/ >$WT/demo_without.out 2>&1 || res="$res demo-fails-WITHOUT-change"
echo "VERDICT $D: ${res:- confirmed (applies, builds, suite passes, demo fails with / passes without)}"
tail -3 $WT/demo_with.out | cut -c1-200
cd /; git -C /repo worktree remove --force $WT/wt; rm -rf $WT
