// simrewrite instruments a scratch copy of github.com/pentops/j5 for the
// deterministic simulator. It never touches /repo.
//
// Pass M (-m pkgs): every iteration whose order Go leaves unspecified is routed
// through simrt so that a seeded decision source chooses the order.
// Pass Y (-y pkgs): yield points before statements that touch shared state,
// and interception of sync.Mutex/RWMutex/Once so that a parked task never
// blocks another one for real.
//
// All rewriting is done with textual insertions at AST positions on the same
// source line, so line numbers in the scratch copy equal those in /repo.
package main

import (
	"encoding/json"
	"flag"
	"fmt"
	"go/ast"
	"go/token"
	"go/types"
	"os"
	"path/filepath"
	"sort"
	"strings"

	"golang.org/x/tools/go/packages"
)

const simrtPath = "github.com/pentops/j5/internal/zzverif/simrt"
const simName = "zzsimrt"

type edit struct {
	off   int // byte offset where the edit starts
	end   int // == off for pure insertions
	text  string
	order int // tie-break among edits at the same offset (smaller first)
}

type siteRec struct {
	Kind string `json:"kind"`
	Site string `json:"site"`
	Func string `json:"func,omitempty"`
	Note string `json:"note,omitempty"`
}

type report struct {
	Sites        []siteRec      `json:"sites"`
	Counts       map[string]int `json:"counts"`
	Uncontrolled []siteRec      `json:"uncontrolled"`
	Unmodelled   []siteRec      `json:"unmodelled"`
	Files        int            `json:"files_rewritten"`
	GoStmts      int            `json:"go_statements_in_pass_y"`
}

var rep = report{Counts: map[string]int{}}

type fileCtx struct {
	pkg           *packages.Package
	file          *ast.File
	tokFile       *token.File
	rel           string
	src           []byte
	edits         []edit
	passM         bool
	passY         bool
	everyStmt     bool // yield before every statement (anchored files)
	fieldAssign   bool // rule (c)
	entryAll      bool // rule (d): every function entry
	entryExported bool
	seq           int
	usedXMaps     map[string]string // local import name -> a symbol to keep it referenced
	keepAlive     map[string]bool   // plain "pkg.Symbol" references that keep imports used
}

func (fc *fileCtx) off(p token.Pos) int { return fc.tokFile.Offset(p) }

func (fc *fileCtx) site(p token.Pos) string {
	pos := fc.tokFile.Position(p)
	return fmt.Sprintf("%s:%d:%d", fc.rel, pos.Line, pos.Column)
}

func (fc *fileCtx) insert(p token.Pos, text string, order int) {
	fc.seq++
	fc.edits = append(fc.edits, edit{fc.off(p), fc.off(p), text, order*100000 + fc.seq})
}

func (fc *fileCtx) replace(from, to token.Pos, text string) {
	fc.seq++
	fc.edits = append(fc.edits, edit{fc.off(from), fc.off(to), text, 50*100000 + fc.seq})
}

func (fc *fileCtx) text(n ast.Node) string { return string(fc.src[fc.off(n.Pos()):fc.off(n.End())]) }

func q(s string) string { b, _ := json.Marshal(s); return string(b) }

func record(kind, site, fn string) {
	rep.Sites = append(rep.Sites, siteRec{Kind: kind, Site: site, Func: fn})
	rep.Counts[kind]++
}

func orderedKey(t types.Type) bool {
	b, ok := t.Underlying().(*types.Basic)
	if !ok {
		return false
	}
	return b.Info()&types.IsOrdered != 0
}

func mapType(t types.Type) *types.Map {
	if t == nil {
		return nil
	}
	m, _ := t.Underlying().(*types.Map)
	return m
}

func pkgPathOf(obj types.Object) string {
	if obj == nil || obj.Pkg() == nil {
		return ""
	}
	return obj.Pkg().Path()
}

// namedPath returns "pkgpath.Name" of a (possibly pointer to) named type.
func namedPath(t types.Type) string {
	if p, ok := t.(*types.Pointer); ok {
		t = p.Elem()
	}
	if a, ok := t.(*types.Alias); ok {
		t = types.Unalias(a)
	}
	n, ok := t.(*types.Named)
	if !ok {
		return ""
	}
	if n.Obj().Pkg() == nil {
		return n.Obj().Name()
	}
	return n.Obj().Pkg().Path() + "." + n.Obj().Name()
}

func isPointer(t types.Type) bool {
	_, ok := t.Underlying().(*types.Pointer)
	return ok
}

// ---------------------------------------------------------------- pass M

func (fc *fileCtx) passMNode(n ast.Node, depth int, fn string) {
	info := fc.pkg.TypesInfo
	switch n := n.(type) {
	case *ast.RangeStmt:
		mt := mapType(info.TypeOf(n.X))
		if mt == nil {
			return
		}
		site := fc.site(n.X.Pos())
		if n.Key == nil && n.Value == nil {
			return // body cannot observe the order
		}
		if !orderedKey(mt.Key()) {
			rep.Uncontrolled = append(rep.Uncontrolled, siteRec{Kind: "range_map_unordered_key", Site: site, Func: fn, Note: mt.Key().String()})
			return
		}
		fc.insert(n.X.Pos(), simName+".MapSeq(", 10+depth)
		fc.insert(n.X.End(), ", "+q(site)+")", 90-depth)
		record("range_map", site, fn)
	case *ast.CallExpr:
		sel, ok := n.Fun.(*ast.SelectorExpr)
		if !ok {
			// generic instantiation maps.Keys[...](m) is not used in the tree
			return
		}
		site := fc.site(n.Pos())
		// package-level functions
		if id, ok := sel.X.(*ast.Ident); ok {
			if _, isPkg := info.Uses[id].(*types.PkgName); isPkg {
				obj := info.Uses[sel.Sel]
				path := pkgPathOf(obj)
				name := sel.Sel.Name
				repl := ""
				switch {
				case path == "golang.org/x/exp/maps" && name == "Keys":
					repl = "MapKeys"
				case path == "golang.org/x/exp/maps" && name == "Values":
					repl = "MapValues"
				case path == "maps" && name == "Keys":
					repl = "StdMapKeys"
				case path == "maps" && name == "Values":
					repl = "StdMapValues"
				case path == "maps" && name == "All":
					repl = "StdMapAll"
				case path == "google.golang.org/protobuf/proto" && name == "RangeExtensions":
					if len(n.Args) == 2 {
						fc.replace(sel.Pos(), sel.End(), simName+".RangeExtensions")
						fc.insert(n.Rparen, ", "+q(site), 90-depth)
						record("range_extensions", site, fn)
					}
					return
				case path == "time":
					switch name {
					case "Now", "Since", "Until", "Sleep":
						fc.replace(sel.Pos(), sel.End(), simName+"."+name)
						fc.keepAlive[id.Name+".Now"] = true
						record("clock_"+strings.ToLower(name), site, fn)
					case "AfterFunc":
						if fc.passY && len(n.Args) == 2 {
							// a callback timer: the simulator owns its deadline (simulated clock) and runs the
							// callback as a task of its own
							fc.replace(sel.Pos(), sel.End(), simName+".AfterFunc")
							fc.insert(n.Rparen, ", "+q(site), 90-depth)
							fc.keepAlive[id.Name+".Now"] = true
							record("timer_afterfunc", site, fn)
						} else {
							rep.Uncontrolled = append(rep.Uncontrolled, siteRec{Kind: "time." + name, Site: site, Func: fn})
						}
					case "After", "Tick", "NewTimer", "NewTicker":
						if fc.passY {
							// a real timer inside the scheduled packages: the simulator cannot own it
							rep.Unmodelled = append(rep.Unmodelled, siteRec{Kind: "time." + name, Site: site, Func: fn})
						} else {
							rep.Uncontrolled = append(rep.Uncontrolled, siteRec{Kind: "time." + name, Site: site, Func: fn})
						}
					}
					return
				case path == "reflect":
					return
				}
				if repl != "" && len(n.Args) == 1 {
					mt := mapType(info.TypeOf(n.Args[0]))
					if mt == nil || !orderedKey(mt.Key()) {
						rep.Uncontrolled = append(rep.Uncontrolled, siteRec{Kind: "maps_func_unordered_key", Site: site, Func: fn})
						return
					}
					fc.replace(sel.Pos(), sel.End(), simName+"."+repl)
					fc.insert(n.Rparen, ", "+q(site), 90-depth)
					fc.usedXMaps[id.Name] = name
					record("maps_"+strings.ToLower(name), site, fn)
				}
				return
			}
		}
		// methods
		selection := info.Selections[sel]
		if selection == nil {
			return
		}
		mobj, ok := selection.Obj().(*types.Func)
		if !ok {
			return
		}
		mpath := pkgPathOf(mobj)
		name := mobj.Name()
		sig, _ := mobj.Type().(*types.Signature)
		if name == "MapRange" || name == "MapKeys" {
			if namedPath(selection.Recv()) == "reflect.Value" {
				rep.Uncontrolled = append(rep.Uncontrolled, siteRec{Kind: "reflect_" + name, Site: site, Func: fn})
			}
			return
		}
		if mpath == "time" && fc.passY && namedPath(selection.Recv()) == "time.Timer" && (name == "Stop" || name == "Reset") {
			// x.Stop() -> simrt.TimerStop(x); x.Reset(d) -> simrt.TimerReset(x, d)
			fc.insert(sel.X.Pos(), simName+".Timer"+name+"(", 10+depth)
			if name == "Stop" {
				fc.replace(sel.X.End(), n.Rparen+1, ")")
			} else {
				fc.replace(sel.X.End(), n.Lparen+1, ", ")
			}
			record("timer_"+strings.ToLower(name), site, fn)
			return
		}
		if !strings.HasPrefix(mpath, "google.golang.org/protobuf/") {
			return
		}
		wrapper := ""
		switch {
		case name == "Range" && sig != nil && sig.Params().Len() == 1:
			ps := sig.Params().At(0).Type().String()
			switch {
			case strings.Contains(ps, "FieldDescriptor"):
				wrapper = "RangeMessage"
			case strings.Contains(ps, "MapKey"):
				wrapper = "RangeProtoMap"
			}
		case name == "RangeFiles" && namedPath(selection.Recv()) == "google.golang.org/protobuf/reflect/protoregistry.Files":
			wrapper = "RangeFiles"
		case name == "RangeFilesByPackage" && namedPath(selection.Recv()) == "google.golang.org/protobuf/reflect/protoregistry.Files":
			wrapper = "RangeFilesByPackage"
		case strings.HasPrefix(name, "Range"):
			rep.Uncontrolled = append(rep.Uncontrolled, siteRec{Kind: "protobuf_" + name, Site: site, Func: fn})
			return
		}
		if wrapper == "" {
			return
		}
		// X.Range(args) -> simrt.Wrapper(X, args, site)
		fc.insert(sel.X.Pos(), simName+"."+wrapper+"(", 10+depth)
		fc.replace(sel.X.End(), n.Lparen+1, ", ")
		fc.insert(n.Rparen, ", "+q(site), 90-depth)
		record(strings.ToLower(wrapper), site, fn)
	}
}

// ---------------------------------------------------------------- pass Y

// sharedMapExpr reports whether e denotes a map-typed struct field or
// package-level variable.
func (fc *fileCtx) sharedMapExpr(e ast.Expr) bool {
	info := fc.pkg.TypesInfo
	if mapType(info.TypeOf(e)) == nil {
		return false
	}
	switch e := e.(type) {
	case *ast.SelectorExpr:
		if s := info.Selections[e]; s != nil && s.Kind() == types.FieldVal {
			return true
		}
		// pkg.Var
		if v, ok := info.Uses[e.Sel].(*types.Var); ok && !v.IsField() && v.Parent() == v.Pkg().Scope() {
			return true
		}
	case *ast.Ident:
		if v, ok := info.Uses[e].(*types.Var); ok && v.Pkg() != nil && v.Parent() == v.Pkg().Scope() {
			return true
		}
	case *ast.ParenExpr:
		return fc.sharedMapExpr(e.X)
	}
	return false
}

// shallowTouches inspects the parts of stmt that are not nested statement
// lists and reports why (if at all) it needs a yield point before it.
func (fc *fileCtx) shallowTouches(stmt ast.Stmt) string {
	info := fc.pkg.TypesInfo
	reason := ""
	var visit func(n ast.Node) bool
	visit = func(n ast.Node) bool {
		if reason != "" {
			return false
		}
		switch n := n.(type) {
		case *ast.BlockStmt, *ast.FuncLit:
			return false
		case *ast.CaseClause:
			for _, e := range n.List {
				ast.Inspect(e, visit)
			}
			return false
		case *ast.CommClause:
			return false
		case *ast.CallExpr:
			if sel, ok := n.Fun.(*ast.SelectorExpr); ok {
				if s := info.Selections[sel]; s != nil {
					if f, ok := s.Obj().(*types.Func); ok {
						p := pkgPathOf(f)
						if p == "sync" || p == "sync/atomic" {
							reason = "sync_call"
							return false
						}
					}
				}
				if id, ok := sel.X.(*ast.Ident); ok {
					if pn, ok := info.Uses[id].(*types.PkgName); ok && pn.Imported().Path() == "sync/atomic" {
						reason = "sync_call"
						return false
					}
				}
			}
			if id, ok := n.Fun.(*ast.Ident); ok && (id.Name == "len" || id.Name == "delete" || id.Name == "clear") {
				if _, isBuiltin := info.Uses[id].(*types.Builtin); isBuiltin && len(n.Args) > 0 && fc.sharedMapExpr(n.Args[0]) {
					reason = "shared_map"
					return false
				}
			}
		case *ast.IndexExpr:
			if fc.sharedMapExpr(n.X) {
				reason = "shared_map"
				return false
			}
		case *ast.RangeStmt:
			if fc.sharedMapExpr(n.X) {
				reason = "shared_map"
				return false
			}
		case *ast.AssignStmt:
			for _, l := range n.Lhs {
				if fc.sharedMapExpr(l) {
					reason = "shared_map"
					return false
				}
				if fc.fieldAssign && n.Tok != token.DEFINE {
					if se, ok := l.(*ast.SelectorExpr); ok {
						if s := info.Selections[se]; s != nil && s.Kind() == types.FieldVal {
							reason = "field_assign"
							return false
						}
					}
				}
			}
		}
		return true
	}
	switch s := stmt.(type) {
	case *ast.IfStmt:
		if s.Init != nil {
			ast.Inspect(s.Init, visit)
		}
		ast.Inspect(s.Cond, visit)
	case *ast.ForStmt:
		if s.Init != nil {
			ast.Inspect(s.Init, visit)
		}
		if s.Cond != nil {
			ast.Inspect(s.Cond, visit)
		}
	case *ast.RangeStmt:
		if fc.sharedMapExpr(s.X) {
			reason = "shared_map"
		} else {
			ast.Inspect(s.X, visit)
		}
	case *ast.SwitchStmt:
		if s.Init != nil {
			ast.Inspect(s.Init, visit)
		}
		if s.Tag != nil {
			ast.Inspect(s.Tag, visit)
		}
	case *ast.TypeSwitchStmt:
		if s.Init != nil {
			ast.Inspect(s.Init, visit)
		}
		ast.Inspect(s.Assign, visit)
	case *ast.SelectStmt, *ast.BlockStmt:
	case *ast.LabeledStmt:
		return fc.shallowTouches(s.Stmt)
	case *ast.DeferStmt, *ast.GoStmt:
		// the call happens later; lock interception handles deferred unlocks
	default:
		ast.Inspect(stmt, visit)
	}
	return reason
}

func (fc *fileCtx) yieldBefore(stmt ast.Stmt, kind, fn string) {
	site := fc.site(stmt.Pos())
	fc.insert(stmt.Pos(), simName+".Yield("+q(site)+"); ", 1)
	record("yield_"+kind, site, fn)
}

func (fc *fileCtx) passYStmtList(list []ast.Stmt, fn string, isFuncBody bool, entry bool) {
	for i, stmt := range list {
		switch stmt.(type) {
		case *ast.CaseClause, *ast.CommClause:
			return // body of a switch/select: clauses are handled on their own
		}
		if _, ok := stmt.(*ast.EmptyStmt); ok {
			continue
		}
		if i == 0 && isFuncBody && entry {
			fc.yieldBefore(stmt, "entry", fn)
			continue
		}
		if fc.everyStmt {
			if ds, ok := stmt.(*ast.DeclStmt); ok {
				_ = ds
				continue
			}
			fc.yieldBefore(stmt, "stmt", fn)
			continue
		}
		if r := fc.shallowTouches(stmt); r != "" {
			// lock calls carry their own yield inside simrt.Lock/Unlock
			if r == "sync_call" && fc.isInterceptedSyncStmt(stmt) {
				continue
			}
			fc.yieldBefore(stmt, r, fn)
		}
	}
}

func (fc *fileCtx) isInterceptedSyncStmt(stmt ast.Stmt) bool {
	es, ok := stmt.(*ast.ExprStmt)
	if !ok {
		return false
	}
	call, ok := es.X.(*ast.CallExpr)
	if !ok {
		return false
	}
	return fc.syncIntercept(call) != ""
}

// syncIntercept classifies a call as an intercepted sync primitive.
func (fc *fileCtx) syncIntercept(call *ast.CallExpr) string {
	sel, ok := call.Fun.(*ast.SelectorExpr)
	if !ok {
		return ""
	}
	s := fc.pkg.TypesInfo.Selections[sel]
	if s == nil {
		return ""
	}
	f, ok := s.Obj().(*types.Func)
	if !ok || pkgPathOf(f) != "sync" {
		return ""
	}
	recv := f.Type().(*types.Signature).Recv()
	if recv == nil {
		return ""
	}
	rt := namedPath(recv.Type())
	switch rt {
	case "sync.Mutex", "sync.RWMutex":
		switch f.Name() {
		case "Lock", "RLock", "Unlock", "RUnlock":
			return rt + "." + f.Name()
		}
	case "sync.Once":
		if f.Name() == "Do" {
			return "sync.Once.Do"
		}
	case "sync.Cond":
		switch f.Name() {
		case "Wait", "Signal", "Broadcast":
			return "sync.Cond." + f.Name()
		}
	case "sync.WaitGroup":
		switch f.Name() {
		case "Add", "Done", "Wait":
			return "sync.WaitGroup." + f.Name()
		}
	}
	return ""
}

func (fc *fileCtx) passYCall(call *ast.CallExpr, depth int, fn string) {
	kind := fc.syncIntercept(call)
	sel, _ := call.Fun.(*ast.SelectorExpr)
	if kind == "" {
		// report unmodelled blocking primitives
		if sel != nil {
			if s := fc.pkg.TypesInfo.Selections[sel]; s != nil {
				if f, ok := s.Obj().(*types.Func); ok && pkgPathOf(f) == "sync" {
					recv := f.Type().(*types.Signature).Recv()
					if recv != nil {
						rt := namedPath(recv.Type())
						if (rt == "sync.WaitGroup" && f.Name() == "Wait") || rt == "sync.Cond" || rt == "sync.Locker" {
							rep.Unmodelled = append(rep.Unmodelled, siteRec{Kind: rt + "." + f.Name(), Site: fc.site(call.Pos()), Func: fn})
						}
					}
				}
			}
		}
		return
	}
	site := fc.site(call.Pos())
	switch {
	case strings.HasSuffix(kind, ".Lock") || strings.HasSuffix(kind, ".RLock"):
		try := "TryLock"
		if strings.HasSuffix(kind, ".RLock") {
			try = "TryRLock"
		}
		xs := fc.text(sel.X)
		fn := "Lock("
		if strings.HasPrefix(kind, "sync.RWMutex") {
			// the simulator models writer preference per RWMutex: pass its identity
			key := "&(" + xs + ")"
			if isPointer(fc.pkg.TypesInfo.TypeOf(sel.X)) {
				key = "(" + xs + ")"
			}
			fn = "LockW(" + key + ", "
			if try == "TryRLock" {
				fn = "LockR(" + key + ", "
			}
		}
		// simrt.Lock(X.TryLock, X.Lock, site)
		fc.insert(sel.X.Pos(), simName+"."+fn, 10+depth)
		fc.replace(sel.Sel.Pos(), call.Rparen+1, try+", ("+xs+")."+sel.Sel.Name+", "+q(site)+")")
		record("lock", site, fn)
	case strings.HasSuffix(kind, "Unlock"):
		fc.insert(sel.X.Pos(), simName+".Unlock(", 10+depth)
		fc.replace(call.Lparen, call.Rparen+1, ", "+q(site)+")")
		record("unlock", site, fn)
	case kind == "sync.Once.Do":
		amp := "&"
		if isPointer(fc.pkg.TypesInfo.TypeOf(sel.X)) {
			amp = ""
		}
		fc.insert(sel.X.Pos(), simName+".OnceDo("+amp+"(", 10+depth)
		fc.replace(sel.X.End(), call.Lparen+1, "), ")
		fc.insert(call.Rparen, ", "+q(site), 90-depth)
		record("once", site, fn)
	case strings.HasPrefix(kind, "sync.WaitGroup."):
		// wg.Add(n) -> simrt.WgAdd(&wg, n); wg.Done() -> simrt.WgDone(&wg); wg.Wait() -> simrt.WgWait(&wg, site)
		amp := "&"
		if isPointer(fc.pkg.TypesInfo.TypeOf(sel.X)) {
			amp = ""
		}
		name := strings.TrimPrefix(kind, "sync.WaitGroup.")
		fc.insert(sel.X.Pos(), simName+".Wg"+name+"("+amp+"(", 10+depth)
		switch name {
		case "Add":
			fc.replace(sel.X.End(), call.Lparen+1, "), ")
		case "Done":
			fc.replace(sel.X.End(), call.Rparen+1, "))")
		default:
			fc.replace(sel.X.End(), call.Rparen+1, "), "+q(site)+")")
		}
		record("waitgroup", site, fn)
	case strings.HasPrefix(kind, "sync.Cond."):
		// c.Wait() -> simrt.CondWait(c, site) etc.: the simulator keeps the waiters
		amp := "&"
		if isPointer(fc.pkg.TypesInfo.TypeOf(sel.X)) {
			amp = ""
		}
		fc.insert(sel.X.Pos(), simName+".Cond"+strings.TrimPrefix(kind, "sync.Cond.")+"("+amp+"(", 10+depth)
		fc.replace(sel.X.End(), call.Rparen+1, "), "+q(site)+")")
		record("cond", site, fn)
	}
}

// ---------------------------------------------------------------- driver

func funcName(d *ast.FuncDecl) string {
	if d.Recv != nil && len(d.Recv.List) > 0 {
		t := d.Recv.List[0].Type
		if s, ok := t.(*ast.StarExpr); ok {
			t = s.X
		}
		if ix, ok := t.(*ast.IndexExpr); ok {
			t = ix.X
		}
		if id, ok := t.(*ast.Ident); ok {
			return id.Name + "." + d.Name.Name
		}
	}
	return d.Name.Name
}

func (fc *fileCtx) wantEntry(d *ast.FuncDecl) bool {
	if fc.entryAll {
		return true
	}
	if !fc.entryExported || !d.Name.IsExported() {
		return false
	}
	if d.Recv != nil && len(d.Recv.List) > 0 {
		// exported method: receiver type must be exported too, or be listed
		t := d.Recv.List[0].Type
		if s, ok := t.(*ast.StarExpr); ok {
			t = s.X
		}
		if id, ok := t.(*ast.Ident); ok {
			if entryRecv != nil {
				return entryRecv[id.Name]
			}
			return id.IsExported()
		}
		return false
	}
	return true
}

var entryRecv map[string]bool

func (fc *fileCtx) process() {
	for _, decl := range fc.file.Decls {
		fd, ok := decl.(*ast.FuncDecl)
		fn := ""
		if ok {
			fn = funcName(fd)
		}
		depth := 0
		var stack []ast.Node
		ast.Inspect(decl, func(n ast.Node) bool {
			if n == nil {
				stack = stack[:len(stack)-1]
				depth--
				return true
			}
			stack = append(stack, n)
			depth++
			if fc.passM {
				fc.passMNode(n, depth, fn)
			}
			if fc.passY {
				switch n := n.(type) {
				case *ast.CallExpr:
					fc.passYCall(n, depth, fn)
				case *ast.GoStmt:
					if lit, ok := n.Call.Fun.(*ast.FuncLit); ok && len(n.Call.Args) == 0 && lit.Type.Params.NumFields() == 0 {
						// go func() { ... }()  ->  simrt.Go(func() { ... }, site): one more scheduled task
						site := fc.site(n.Pos())
						fc.replace(n.Pos(), lit.Pos(), simName+".Go(")
						fc.replace(n.Call.Lparen, n.Call.Rparen+1, ", "+q(site)+")")
						record("go_func", site, fn)
					} else {
						rep.GoStmts++
						rep.Unmodelled = append(rep.Unmodelled, siteRec{Kind: "go_statement", Site: fc.site(n.Pos()), Func: fn})
					}
				case *ast.SendStmt, *ast.SelectStmt:
					rep.Unmodelled = append(rep.Unmodelled, siteRec{Kind: "channel_op", Site: fc.site(n.Pos()), Func: fn})
				case *ast.UnaryExpr:
					if n.Op == token.ARROW {
						rep.Unmodelled = append(rep.Unmodelled, siteRec{Kind: "channel_op", Site: fc.site(n.Pos()), Func: fn})
					}
				case *ast.BlockStmt:
					isBody := false
					entry := false
					if len(stack) >= 2 {
						switch p := stack[len(stack)-2].(type) {
						case *ast.FuncDecl:
							isBody = p.Body == n
							entry = fc.wantEntry(p)
						}
					}
					fc.passYStmtList(n.List, fn, isBody, entry)
				case *ast.CaseClause:
					fc.passYStmtList(n.Body, fn, false, false)
				case *ast.CommClause:
					fc.passYStmtList(n.Body, fn, false, false)
				}
			}
			return true
		})
	}
}

func (fc *fileCtx) apply() []byte {
	if len(fc.edits) == 0 {
		return nil
	}
	// import: on the package clause line so that line numbers are preserved
	imp := "; import " + simName + " " + q(simrtPath)
	var keep []string
	for name, sym := range fc.usedXMaps {
		keep = append(keep, fmt.Sprintf("\nvar _ = %s.%s[map[string]struct{}]\n", name, sym))
	}
	for ref := range fc.keepAlive {
		keep = append(keep, fmt.Sprintf("\nvar _ = %s\n", ref))
	}
	sort.Strings(keep)
	fc.edits = append(fc.edits, edit{len(fc.src), len(fc.src), strings.Join(keep, ""), 0})
	fc.edits = append(fc.edits, edit{fc.off(fc.file.Name.End()), fc.off(fc.file.Name.End()), imp, 0})
	sort.SliceStable(fc.edits, func(i, j int) bool {
		if fc.edits[i].off != fc.edits[j].off {
			return fc.edits[i].off < fc.edits[j].off
		}
		return fc.edits[i].order < fc.edits[j].order
	})
	var out []byte
	pos := 0
	for _, e := range fc.edits {
		if e.off < pos {
			fmt.Fprintf(os.Stderr, "simrewrite: overlapping edits in %s at offset %d (%q)\n", fc.rel, e.off, e.text)
			os.Exit(2)
		}
		out = append(out, fc.src[pos:e.off]...)
		out = append(out, e.text...)
		pos = e.end
	}
	out = append(out, fc.src[pos:]...)
	return out
}

type multi []string

func (m *multi) String() string     { return strings.Join(*m, ",") }
func (m *multi) Set(s string) error { *m = append(*m, strings.Split(s, ",")...); return nil }

func main() {
	var dir, reportPath string
	var mPkgs, yPkgs, everyFiles, fieldAssignPkgs, entryAllFiles, entryExportedPkgs, entryRecvs multi
	flag.StringVar(&dir, "dir", "", "module root of the scratch copy")
	flag.StringVar(&reportPath, "report", "", "write JSON report here")
	flag.Var(&mPkgs, "m", "package patterns for pass M")
	flag.Var(&yPkgs, "y", "package patterns for pass Y")
	flag.Var(&everyFiles, "every", "files (relative) where every statement gets a yield")
	flag.Var(&fieldAssignPkgs, "fieldassign", "package dirs (relative) where field assignments get a yield")
	flag.Var(&entryAllFiles, "entryall", "files (relative) where every function entry gets a yield")
	flag.Var(&entryExportedPkgs, "entryexported", "package dirs (relative) where exported function entries get a yield")
	flag.Var(&entryRecvs, "entryrecv", "pkgdir:Type — restrict exported-method entry yields in pkgdir to these receiver types")
	flag.Parse()
	if dir == "" {
		fmt.Fprintln(os.Stderr, "simrewrite: -dir required")
		os.Exit(2)
	}
	dir, _ = filepath.Abs(dir)

	patterns := append(append([]string{}, mPkgs...), yPkgs...)
	cfg := &packages.Config{
		Mode: packages.NeedName | packages.NeedFiles | packages.NeedCompiledGoFiles | packages.NeedSyntax | packages.NeedTypes | packages.NeedTypesInfo | packages.NeedImports | packages.NeedDeps,
		Dir:  dir,
		Env:  os.Environ(),
	}
	pkgs, err := packages.Load(cfg, patterns...)
	if err != nil {
		fmt.Fprintln(os.Stderr, "simrewrite: load:", err)
		os.Exit(2)
	}
	bad := false
	for _, p := range pkgs {
		for _, e := range p.Errors {
			fmt.Fprintln(os.Stderr, "simrewrite: package error:", e)
			bad = true
		}
	}
	if bad {
		os.Exit(2)
	}

	match := func(list multi, rel string) bool {
		for _, l := range list {
			if l == rel {
				return true
			}
		}
		return false
	}
	inPatterns := func(list multi, relDir string) bool {
		for _, pat := range list {
			pat = strings.TrimPrefix(pat, "./")
			if strings.HasSuffix(pat, "/...") {
				base := strings.TrimSuffix(pat, "/...")
				if relDir == base || strings.HasPrefix(relDir, base+"/") {
					return true
				}
			} else if pat == relDir {
				return true
			}
		}
		return false
	}
	recvByDir := map[string]map[string]bool{}
	for _, r := range entryRecvs {
		parts := strings.SplitN(r, ":", 2)
		if len(parts) == 2 {
			if recvByDir[parts[0]] == nil {
				recvByDir[parts[0]] = map[string]bool{}
			}
			recvByDir[parts[0]][parts[1]] = true
		}
	}

	seen := map[string]bool{}
	for _, p := range pkgs {
		if strings.Contains(p.PkgPath, "/zzverif") {
			continue
		}
		for i, f := range p.Syntax {
			path := p.CompiledGoFiles[i]
			if seen[path] {
				continue
			}
			seen[path] = true
			rel, err := filepath.Rel(dir, path)
			if err != nil || strings.HasPrefix(rel, "..") {
				continue
			}
			if strings.HasSuffix(rel, ".pb.go") || strings.HasSuffix(rel, "_test.go") {
				continue
			}
			relDir := filepath.Dir(rel)
			src, err := os.ReadFile(path)
			if err != nil {
				fmt.Fprintln(os.Stderr, "simrewrite:", err)
				os.Exit(2)
			}
			fc := &fileCtx{
				pkg: p, file: f, tokFile: p.Fset.File(f.Pos()), rel: rel, src: src,
				passM: inPatterns(mPkgs, relDir), passY: inPatterns(yPkgs, relDir),
				everyStmt: match(everyFiles, rel), fieldAssign: match(fieldAssignPkgs, relDir),
				entryAll: match(entryAllFiles, rel), entryExported: match(entryExportedPkgs, relDir),
				usedXMaps: map[string]string{},
				keepAlive: map[string]bool{},
			}
			entryRecv = recvByDir[relDir]
			fc.process()
			if out := fc.apply(); out != nil {
				if err := os.WriteFile(path, out, 0o644); err != nil {
					fmt.Fprintln(os.Stderr, "simrewrite:", err)
					os.Exit(2)
				}
				rep.Files++
			}
		}
	}
	sort.Slice(rep.Sites, func(i, j int) bool { return rep.Sites[i].Site < rep.Sites[j].Site })
	b, _ := json.MarshalIndent(rep, "", " ")
	if reportPath != "" {
		if err := os.WriteFile(reportPath, b, 0o644); err != nil {
			fmt.Fprintln(os.Stderr, "simrewrite:", err)
			os.Exit(2)
		}
	} else {
		os.Stdout.Write(b)
	}
}
