#!/bin/bash
# usage: trymutant.sh <patch.diff> <PROP> [budget]
# Applies a patch to a scratch worktree of /repo HEAD (never to /repo itself), runs the quick check against
# it (VERIF_REPO), with evidence and replay files diverted to /tmp/mine, and removes the worktree.
set -u
P=$(readlink -f "$1"); PROP=$2; B=${3:-25}
mkdir -p /tmp/mine
WT=$(mktemp -d /tmp/mine/mutwt.XXXX)
git -C /repo worktree add -q --detach $WT/wt ${BASE:-HEAD} || exit 2
trap 'git -C /repo worktree remove --force $WT/wt; rm -rf $WT' EXIT
git -C $WT/wt apply "$P" || { echo "patch does not apply"; exit 2; }
cd /verif && VERIF_REPO=$WT/wt VERIF_TMP=/tmp/mine VERIF_EVIDENCE_DIR=/tmp/mine/evidence VERIF_REPLAY_DIR=/tmp/mine/replays.$$ VERIF_BUDGET=$B bin/check $PROP quick 2>&1 | grep -E "^(VIOLATION|OK|TROUBLE|KNOWN|REPLAY|explored|  under|  in every|  run alone)" | cut -c1-300 | head -20
echo "exit=${PIPESTATUS[0]}"
