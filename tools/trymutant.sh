#!/bin/bash
# usage: trymutant.sh <patch.diff> <PROP> [budget]   — apply a patch to /repo, run the quick check, revert.
set -u
P=$1; PROP=$2; B=${3:-25}
cd /repo || exit 2
if ! git diff --quiet; then echo "repo dirty"; exit 2; fi
git apply "$P" || { echo "patch does not apply"; exit 2; }
trap 'git -C /repo checkout -- . ; git -C /repo clean -fdq' EXIT
cd /verif && VERIF_BUDGET=$B bin/check $PROP quick 2>&1 | grep -E "^(VIOLATION|OK|TROUBLE|KNOWN|REPLAY|explored|  under|  in every)" | cut -c1-300 | head -20
echo "exit=${PIPESTATUS[0]}"
