#!/usr/bin/env python3
# Regenerates MANIFEST.json from the tables below (kept as a script so the
# not_applicable reasons stay in one place next to the check definitions).
import json, sys
NA = {
"C01":"pure function of (schema, message): codec works on []byte on the caller's goroutine; no schedule, clock, I/O or fault for a simulator to own (shared cache state is C10's subject)",
"C02":"pure translation of source text to descriptors; no execution fault or schedule in the statement; needs program generation with an expected-output model, a different technique",
"C03":"pure function of (schema, document); 'rejected' inputs are malformed data, not execution faults; nothing to schedule or inject",
"C04":"composition of two pure functions over programs (compile, then reflect); no nondeterministic seam involved in the claim",
"C05":"pure print-then-parse over descriptors; the property makes no crash, torn-write or ordering claim about the file system hop",
"C06":"totality (no panic/hang/stack exhaustion) of a pure function over byte strings; a simulated clock cannot bound CPU loops; fuzzing territory",
"C07":"totality/acceptance of a pure function over source texts; no I/O-fault claim in the statement",
"C08":"pure function of (schema, message) producing bytes; nothing schedule- or fault-dependent",
"C09":"formatter is a pure string-to-string function; the property states no atomicity/durability requirement for fmt --write",
"C11":"BCL parser is a pure function of the input string; no stream, cancellation or shared state",
"C12":"pure: compile rules, then evaluate protovalidate on values; no schedule or fault dimension",
"C13":"relation between compile(P) and compile(edit(P)); each step is a stateless compile from scratch, no nondeterminism or shared state connects the steps (PackageSet reuse is covered under C14)",
"C15":"pure export/import over descriptor sets on one goroutine",
"C16":"pure in-memory pipeline on one goroutine; no fault or schedule in the claim",
"C17":"pure program transformation (entity expansion)",
"C18":"pure and structural over descriptor sets; termination is structural, not temporal",
"C19":"FmtDiffs and the genlsp format adapter are pure functions of the document text; the LSP reply is computed synchronously in the connection read loop, the debounced diagnostics goroutine only reads, so no schedule can change the edits",
"C20":"pure 128-bit arithmetic and string parsing; NewHash reads only its arguments (id62.New's randomness is not part of the property)",
}
checks = json.load(open('/verif/checks.json'))
m = {
 "version":1,
 "setup_cmd":"bin/setup",
 "hooks":{
  "guard":"verif",
  "enable":"no hook is committed to /repo: each check rsyncs /repo's working tree to a scratch directory, runs tools/simrewrite (typed go/ast instrumenter: seeded iteration order at every map/Range site, yield points and lock interception) over the copy, copies sim/simrt and the harness into it and builds with go1.26.8 -tags verif (C10 with -race)",
  "baseline_off_cmd":"cd /repo && GOFLAGS=-mod=mod GOPROXY=off go test -vet=off -count=1 -timeout 25m ./...",
  "source_commits":[],
  "add_only":True,
 },
 "engines":[{"name":"j5sim","path":"/verif/bin/check","serves_properties":[c["property_id"] for c in checks],
   "kind_free_text":"deterministic simulation: seeded scheduler over real goroutines parked at AST-inserted yield points (hand-off invisible to the race detector), seeded iteration-order/listing/history seams, sequential-reference oracles, ddmin minimiser, exact replay"}],
 "checks":checks,
 "not_applicable":[{"property_id":k,"reason":v} for k,v in sorted(NA.items()) if k not in {c["property_id"] for c in checks}],
 "notes":"See DESIGN.md. Exit codes of bin/check: 0 held, 1 VIOLATION, 2 machinery trouble (never reported as a violation).",
}
json.dump(m, open('/verif/MANIFEST.json','w'), indent=1)
print("ok", len(m["checks"]), "checks", len(m["not_applicable"]), "n/a")
